module verif/rewrite

go 1.23
