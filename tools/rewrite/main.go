package main

import (
	"bytes"
	"flag"
	"fmt"
	"go/ast"
	"go/format"
	"go/parser"
	"go/token"
	"os"
	"path/filepath"
	"strconv"
)

// mapRange names one `for ... := range <Expr>` over a map whose order becomes an explorer choice.
type mapRange struct {
	File, Func, Expr string
	Min              int // minimal number of matches expected
}

var mapRanges = []mapRange{
	{"internal/db/merge.go", "loadComposites", "mt.heads", 1},
	{"internal/db/schema_id.go", "getSchemaSets", "schemasWithRelations", 1},
	{"internal/db/schema_id.go", "getSchemaSets", "schemaSetsByID", 1},
}

// schedMapRanges are map iterations inside code that runs under the cooperative scheduler: their order
// must be the same in every execution of one schedule (replay determinism), so they are visited in
// ascending key order (vsched.RangeMap without a chooser). The orders themselves are not explored.
var schedMapRanges = []mapRange{
	{"event/channel_bus.go", "handleChannel", "b.subs", 1},
	{"event/channel_bus.go", "handleChannel", "b.events[WildCardName]", 1},
	{"event/channel_bus.go", "handleChannel", "b.events[t.Name]", 1},
	{"net/peer.go", "Close", "p.server.conns", 1},
	{"net/peer.go", "pushLogToReplicators", "reps", 1},
	{"net/server.go", "removeAllPubsubTopics", "s.topics", 1},
	{"net/server.go", "updateReplicators", "s.replicators", 1},
	{"net/server.go", "updateReplicators", "collectionIDs", 1},
	{"net/p2p_replicator.go", "DeleteReplicator", "storedCollectionIDs", 1},
	{"internal/db/merge.go", "executeMerge", "mp.docIDs", 1},
	{"internal/db/merge.go", "tryFetchMissingBlocksAndMerge", "mp.missingEncryptionBlocks", 1},
}

// schedFiles are rewritten for the scheduler build; value = channel expressions ranged over.
var schedFiles = map[string][]string{
	"internal/datastore/concurrent_txn.go": nil,
	"internal/datastore/txn.go":            nil,
	"event/channel_bus.go":                 {"b.commandChannel"},
	"internal/db/db.go":                    nil,
	"internal/db/merge.go":                 nil,
	"internal/db/messages.go":              nil,
	"internal/db/subscriptions.go":         nil,
	"net/peer.go":                          nil,
	"net/p2p_replicator.go":                nil,
	"net/server.go":                        nil,
	"net/client.go":                        nil,
}

func die(format string, a ...any) {
	fmt.Fprintf(os.Stderr, "HARNESS-ERROR: rewrite: "+format+"\n", a...)
	os.Exit(2)
}

func rewriteMapRanges(rel string, src []byte) ([]byte, bool) {
	var rules []mapRange
	for _, r := range mapRanges {
		if r.File == rel {
			rules = append(rules, r)
		}
	}
	if len(rules) == 0 {
		return src, false
	}
	fset := token.NewFileSet()
	f, err := parser.ParseFile(fset, rel, src, parser.ParseComments)
	if err != nil {
		die("%s: %v", rel, err)
	}
	hits := make([]int, len(rules))
	for _, d := range f.Decls {
		fd, ok := d.(*ast.FuncDecl)
		if !ok || fd.Body == nil {
			continue
		}
		ast.Inspect(fd.Body, func(n ast.Node) bool {
			rs, ok := n.(*ast.RangeStmt)
			if !ok {
				return true
			}
			for i, r := range rules {
				if r.Func == fd.Name.Name && exprStr(fset, rs.X) == r.Expr {
					rs.X = &ast.CallExpr{Fun: sel("RangeMap"), Args: []ast.Expr{rs.X}}
					hits[i]++
				}
			}
			return true
		})
	}
	for i, r := range rules {
		if hits[i] < r.Min {
			die("%s: map range `%s` in func %s not found (the file changed shape; update tools/rewrite)", rel, r.Expr, r.Func)
		}
	}
	addImport(f, vsched)
	var b bytes.Buffer
	if err := format.Node(&b, fset, f); err != nil {
		die("%s: %v", rel, err)
	}
	return b.Bytes(), true
}

func addImport(f *ast.File, path string) {
	for _, im := range f.Imports {
		if p, _ := strconv.Unquote(im.Path.Value); p == path {
			return
		}
	}
	spec := &ast.ImportSpec{Path: &ast.BasicLit{Kind: token.STRING, Value: strconv.Quote(path)}}
	for _, d := range f.Decls {
		if gd, ok := d.(*ast.GenDecl); ok && gd.Tok == token.IMPORT {
			gd.Specs = append(gd.Specs, spec)
			f.Imports = append(f.Imports, spec)
			return
		}
	}
	die("no import declaration to extend")
}

func main() {
	repo := flag.String("repo", "/repo", "repository root")
	mode := flag.String("mode", "plain", "plain|sched")
	out := flag.String("out", "", "output directory")
	flag.Parse()
	if *out == "" {
		die("-out required")
	}
	files := map[string]bool{}
	for _, r := range mapRanges {
		files[r.File] = true
	}
	if *mode == "sched" {
		mapRanges = append(mapRanges, schedMapRanges...)
		for f := range schedFiles {
			files[f] = true
		}
	}
	for rel := range files {
		src, err := os.ReadFile(filepath.Join(*repo, rel))
		if err != nil {
			die("%v", err)
		}
		res, _ := rewriteMapRanges(rel, src)
		if *mode == "sched" {
			if chans, ok := schedFiles[rel]; ok {
				rc := map[string]bool{}
				for _, c := range chans {
					rc[c] = true
				}
				res = rewriteSched(rel, res, rc)
			}
		}
		dst := filepath.Join(*out, rel)
		if err := os.MkdirAll(filepath.Dir(dst), 0o755); err != nil {
			die("%v", err)
		}
		if err := os.WriteFile(dst, res, 0o644); err != nil {
			die("%v", err)
		}
	}
}
