// Command rewrite mechanically rewrites a fixed table of repository files (DESIGN.md §2.1):
//   mode plain: map ranges named in the table -> vsched.RangeMap (iteration order becomes an explorer choice)
//   mode sched: additionally import "sync" -> vsync, channel operations / select / go -> vsched helpers.
// A file that no longer matches its rule is a harness error (exit 2), never a verdict.
// usage: rewrite -repo /repo -mode plain|sched -out <gen-dir>
package main

import (
	"bytes"
	"fmt"
	"go/ast"
	"go/format"
	"go/parser"
	"go/token"
	"strconv"
)

const vsched = "github.com/sourcenetwork/defradb/internal/verifh/vsched"
const vsync = "github.com/sourcenetwork/defradb/internal/verifh/vsync"

func sel(name string) ast.Expr { return &ast.SelectorExpr{X: ast.NewIdent("vsched"), Sel: ast.NewIdent(name)} }

func exprStr(fset *token.FileSet, e ast.Expr) string {
	var b bytes.Buffer
	format.Node(&b, fset, e)
	return b.String()
}

var selN int

func isDoneCall(e ast.Expr) (ast.Expr, bool) {
	c, ok := e.(*ast.CallExpr)
	if !ok || len(c.Args) != 0 {
		return nil, false
	}
	se, ok := c.Fun.(*ast.SelectorExpr)
	if !ok || se.Sel.Name != "Done" {
		return nil, false
	}
	return se.X, true
}

// rewriteSelects replaces blocking select statements found directly in statement lists of n.
func rewriteSelects(fset *token.FileSet, n ast.Node, used *bool) {
	var list *[]ast.Stmt
	switch p := n.(type) {
	case *ast.BlockStmt:
		list = &p.List
	case *ast.CaseClause:
		list = &p.Body
	case *ast.CommClause:
		list = &p.Body
	default:
		return
	}
	for i, s := range *list {
		sel0, ok := s.(*ast.SelectStmt)
		if !ok {
			continue
		}
		hasDefault := false
		for _, c := range sel0.Body.List {
			if c.(*ast.CommClause).Comm == nil {
				hasDefault = true
			}
		}
		if hasDefault {
			continue // non-blocking poll: left native
		}
		*used = true
		selN++
		var pre []ast.Stmt
		var args []ast.Expr
		sw := &ast.SwitchStmt{Body: &ast.BlockStmt{}}
		for ci, c := range sel0.Body.List {
			cc := c.(*ast.CommClause)
			name := fmt.Sprintf("_vc%d_%d", selN, ci)
			var mk ast.Expr
			var bind ast.Stmt
			recvCase := func(x ast.Expr) ast.Expr {
				if ctxE, ok := isDoneCall(x); ok {
					return &ast.CallExpr{Fun: sel("DoneCase"), Args: []ast.Expr{ctxE}}
				}
				return &ast.CallExpr{Fun: sel("RecvCase"), Args: []ast.Expr{x}}
			}
			switch st := cc.Comm.(type) {
			case *ast.ExprStmt: // case <-ch:
				mk = recvCase(st.X.(*ast.UnaryExpr).X)
			case *ast.AssignStmt: // case v[, ok] :=/= <-ch:
				mk = recvCase(st.Rhs[0].(*ast.UnaryExpr).X)
				m := "Val"
				if len(st.Lhs) == 2 {
					m = "Get"
				}
				bind = &ast.AssignStmt{Lhs: st.Lhs, Tok: st.Tok, Rhs: []ast.Expr{&ast.CallExpr{Fun: &ast.SelectorExpr{X: ast.NewIdent(name), Sel: ast.NewIdent(m)}}}}
			case *ast.SendStmt:
				mk = &ast.CallExpr{Fun: &ast.CallExpr{Fun: sel("SendCaseTo"), Args: []ast.Expr{st.Chan}}, Args: []ast.Expr{st.Value}}
			}
			pre = append(pre, &ast.AssignStmt{Lhs: []ast.Expr{ast.NewIdent(name)}, Tok: token.DEFINE, Rhs: []ast.Expr{mk}})
			args = append(args, ast.NewIdent(name))
			body := cc.Body
			if bind != nil {
				body = append([]ast.Stmt{bind}, body...)
			}
			sw.Body.List = append(sw.Body.List, &ast.CaseClause{List: []ast.Expr{&ast.BasicLit{Kind: token.INT, Value: strconv.Itoa(ci)}}, Body: body})
		}
		sw.Tag = &ast.CallExpr{Fun: sel("Select"), Args: args}
		(*list)[i] = &ast.BlockStmt{List: append(pre, sw)}
	}
}

func rewriteSched(in string, src []byte, rangeChans map[string]bool) []byte {
	fset := token.NewFileSet()
	f, err := parser.ParseFile(fset, in, src, parser.ParseComments)
	if err != nil {
		panic(err)
	}
	used := false
	// imports
	for _, im := range f.Imports {
		p, _ := strconv.Unquote(im.Path.Value)
		if p == "sync" {
			im.Path.Value = strconv.Quote(vsync)
			im.Name = ast.NewIdent("sync")
		}
	}
	var rewriteExpr func(e ast.Expr) ast.Expr
	rewriteExpr = func(e ast.Expr) ast.Expr {
		switch x := e.(type) {
		case *ast.UnaryExpr:
			if x.Op == token.ARROW {
				used = true
				return &ast.CallExpr{Fun: sel("Recv"), Args: []ast.Expr{x.X}}
			}
		case *ast.CallExpr:
			if id, ok := x.Fun.(*ast.Ident); ok {
				if id.Name == "close" && len(x.Args) == 1 {
					used = true
					return &ast.CallExpr{Fun: sel("Close"), Args: x.Args}
				}
				if id.Name == "make" && len(x.Args) >= 1 {
					if ct, ok := x.Args[0].(*ast.ChanType); ok {
						used = true
						n := ast.Expr(&ast.BasicLit{Kind: token.INT, Value: "0"})
						if len(x.Args) == 2 {
							n = x.Args[1]
						}
						return &ast.CallExpr{Fun: &ast.IndexExpr{X: sel("MakeChan"), Index: ct.Value}, Args: []ast.Expr{n}}
					}
				}
			}
		}
		return e
	}
	// generic expression replacement via Inspect on parents
	skip := map[ast.Node]bool{}
	replaceIn := func(n ast.Node) {
		if skip[n] {
			return
		}
		if ss, ok := n.(*ast.SelectStmt); ok {
			for _, c := range ss.Body.List {
				if cc := c.(*ast.CommClause); cc.Comm != nil {
					skip[cc.Comm] = true
				}
			}
			return
		}
		switch p := n.(type) {
		case *ast.AssignStmt:
			if len(p.Lhs) == 2 && len(p.Rhs) == 1 {
				if u, ok := p.Rhs[0].(*ast.UnaryExpr); ok && u.Op == token.ARROW {
					used = true
					p.Rhs[0] = &ast.CallExpr{Fun: sel("Recv2"), Args: []ast.Expr{u.X}}
					return
				}
			}
			for i := range p.Rhs {
				p.Rhs[i] = rewriteExpr(p.Rhs[i])
			}
		case *ast.ExprStmt:
			p.X = rewriteExpr(p.X)
		case *ast.KeyValueExpr:
			p.Value = rewriteExpr(p.Value)
		case *ast.ReturnStmt:
			for i := range p.Results {
				p.Results[i] = rewriteExpr(p.Results[i])
			}
		case *ast.RangeStmt:
			if rangeChans[exprStr(fset, p.X)] {
				used = true
				p.X = &ast.CallExpr{Fun: sel("RangeChan"), Args: []ast.Expr{p.X}}
			}
		case *ast.BlockStmt:
			for i, s := range p.List {
				switch st := s.(type) {
				case *ast.SendStmt:
					used = true
					p.List[i] = &ast.ExprStmt{X: &ast.CallExpr{Fun: &ast.CallExpr{Fun: sel("SendTo"), Args: []ast.Expr{st.Chan}}, Args: []ast.Expr{st.Value}}}
				case *ast.GoStmt:
					used = true
					name := "Go"
					args := []ast.Expr{st.Call.Fun}
					if len(st.Call.Args) > 0 {
						name = fmt.Sprintf("Go%d", len(st.Call.Args))
						args = append(args, st.Call.Args...)
					}
					p.List[i] = &ast.ExprStmt{X: &ast.CallExpr{Fun: sel(name), Args: args}}
				}
			}
		case *ast.CaseClause:
			for i, s := range p.Body {
				switch st := s.(type) {
				case *ast.SendStmt:
					used = true
					p.Body[i] = &ast.ExprStmt{X: &ast.CallExpr{Fun: &ast.CallExpr{Fun: sel("SendTo"), Args: []ast.Expr{st.Chan}}, Args: []ast.Expr{st.Value}}}
				case *ast.GoStmt:
					used = true
					name := "Go"
					args := []ast.Expr{st.Call.Fun}
					if len(st.Call.Args) > 0 {
						name = fmt.Sprintf("Go%d", len(st.Call.Args))
						args = append(args, st.Call.Args...)
					}
					p.Body[i] = &ast.ExprStmt{X: &ast.CallExpr{Fun: sel(name), Args: args}}
				}
			}
		}
	}
	ast.Inspect(f, func(n ast.Node) bool {
		if n != nil {
			rewriteSelects(fset, n, &used)
			replaceIn(n)
		}
		return true
	})
	if used {
		addImport(f, vsched)
	}
	var b bytes.Buffer
	if err := format.Node(&b, fset, f); err != nil {
		panic(err)
	}
	return b.Bytes()
}
