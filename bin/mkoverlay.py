#!/usr/bin/env python3
"""Generate go build overlay files mapping /verif/harness into /repo's module tree.

usage: mkoverlay.py <out.json> [<gen-dir> ...]
  harness/<pkg>/...            -> /repo/internal/verifh/<pkg>/...
  harness/inpkg/<a__b__c>/x.go -> /repo/a/b/c/zz_verif_x.go
  <gen-dir>/<relpath>          -> /repo/<relpath>   (mechanically rewritten repository files)
"""
import json, os, sys

REPO = os.environ.get("VERIF_REPO", "/repo")
H = "/verif/harness"

def main():
    out = sys.argv[1]
    rep = {}
    for root, dirs, files in os.walk(H):
        dirs.sort()
        rel = os.path.relpath(root, H)
        for f in sorted(files):
            if not f.endswith(".go"):
                continue
            src = os.path.join(root, f)
            if rel.startswith("inpkg"):
                parts = rel.split(os.sep)
                if len(parts) < 2:
                    continue
                pkgdir = parts[1].replace("__", "/")
                dst = os.path.join(REPO, pkgdir, "zz_verif_" + f)
            else:
                dst = os.path.join(REPO, "internal/verifh", rel, f)
            rep[dst] = src
    for gen in sys.argv[2:]:
        for root, dirs, files in os.walk(gen):
            for f in files:
                src = os.path.join(root, f)
                rel = os.path.relpath(src, gen)
                rep[os.path.join(REPO, rel)] = src
    with open(out, "w") as fh:
        json.dump({"Replace": rep}, fh, indent=1, sort_keys=True)

main()
