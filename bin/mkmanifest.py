#!/usr/bin/env python3
"""Regenerates /verif/MANIFEST.json from the table below (single source of truth for the interface)."""
import json, subprocess

CHECKS = {}
def chk(pid, engine, cat, text, note, tech, design, thorough=True):
    CHECKS[pid] = dict(property_id=pid, quick_cmd=f"bin/check {pid} quick",
        **({"thorough_cmd": f"bin/check {pid} thorough"} if thorough else {}),
        evidence_file=f"/verif/evidence/{pid}.json", replay_cmd_template=f"bin/check {pid} quick replay {{path}}",
        engine=engine, level_claimed=dict(category=cat, text=text, design_ref=design), level_note=note, technique=tech)

E1_NOTE = ("trusted: the vkv store device (bound to badger by the conformance run in setup and by replaying sampled traces and every "
           "violation on badger in-memory), owned crypto/rand stream, delivery = real syncDAG over an exchange reading the sender's "
           "blockstore + real executeMerge called synchronously; libp2p/gRPC transport not started; bounds N<=3 replicas, L<=4 local "
           "operations, alphabets {counter increment, register set/null, delete, create}.")
chk("C01","crdtx","model_checking",
    "Explicit-state breadth-first search of a group of 2-3 real db.DB replicas: every interleaving of <=L local mutations with every delivery order, duplication and redelivery of every commit (delivered-set lattice explored to its fixpoint), for several hash-order variants. In every state: merges never fail, and the observable (documents incl. deleted, head set) is a function of the merged commit set alone (path independence => convergence).",
    E1_NOTE, "explicit-state model checking of the implementation (BFS over real replicas, canonical store hashing)", "§3 E1, §4 C01")
chk("C02","crdtx","model_checking",
    "Same state space as C01; after every single transition the changed node is compared with a reference computed from the set of merged commits: counter = sum of merged increments (distinct powers of ten, so doubles/losses cannot cancel), register = a causally maximal write, deleted iff a merged commit deletes, redelivery is a byte-identical no-op on the whole store.",
    E1_NOTE, "explicit-state model checking of the implementation against a reference model", "§3 E1, §4 C02")
chk("C04","crdtx","model_checking",
    "Same state space as C01; invariant in every state on the changed node: every stored block hashes to its key, every head/link of every merged commit resolves locally, height = 1 + max parent height, recorded heads (and their heights) = exactly the maximal merged commits.",
    E1_NOTE, "explicit-state model checking of the implementation, structural invariant on raw store content", "§3 E1, §4 C04")

chk("C03","crdtx + linear-history enumerator","model_checking",
    "Every local linear history of length <= H over {set, null, two increments, delete}: in every state every commit of the history is queried by cid and must equal the ordinary query recorded right after that commit, and the head must equal the current read; every state of the 2-replica E1 space (branching/merged histories) queries every merged commit against the reference state of its ancestor closure; a GraphQL subscription opened before each maximal history must push, per commit, the value of the ordinary query after that commit. Requests run under a hang guard.",
    E1_NOTE + " Subscription results are awaited with a 60 s liveness deadline whose expiry is a harness error, never a verdict.", "explicit-state enumeration of histories on the implementation with a differential oracle (versioned read vs recorded ordinary read vs reference model)", "§4 C03")
chk("C05","faultx","fault_enumeration",
    "For every prior state (BFS to depth D over the alphabet), every mutating operation (collection API, GraphQL mutations incl. multi-document and upsert, merges of remote commits, index create/drop, schema add/patch, import) and every storage call the operation issues (named by kind/key/occurrence) the operation is re-run with that call failing (I/O error; additionally ErrTxnConflict at commit): error => store (minus unreachable blocks), logical dump and in-memory probe requests unchanged and no update event; success => store, dump and events identical to the fault-free run.",
    "trusted: the store's own commit atomicity (badger's contract, modelled by vkv); one fault per run; faults inside the ACP engine's store and the versioned fetcher's transient store are not injected; schema/index operations get a fresh DB object per run.", "exhaustive single-fault enumeration over every storage call of every operation on the real code", "§3 E2, §4 C05")

chk("C06","txnx","exploration",
    "Every interleaving of the steps (begin, operations, commit/discard) of 2-3 explicit transactions with scripts of <=2 operations over {read one, read all, update, counter increment, delete, create} on 2 shared documents, through both entry styles (txn.ExecRequest and the transaction carried in the context), executed in lock step with a snapshot-isolation reference model: every read inside a transaction = snapshot at its start + own writes; a non-transactional read after every step = exactly the committed state; two overlapping transactions that modified the same document never both commit and the loser gets the conflict error; discarded/failed transactions leave no trace.",
    "trusted: isolation itself is the key-value store's: the deciding pass runs on badger in-memory (the store of the test-suite), a thinner second pass on vkv; spurious conflicts are counted, not alarmed on; phantom/predicate anomalies beyond the scripts are outside.", "exhaustive interleaving enumeration of transaction scripts on the real database against a reference model", "§3 E4, §4 C06")
E6_NOTE = ("trusted: the reference evaluator (plain Go, written from docs/website/references/query-specification) where it speaks, "
           "metamorphic relations elsewhere; value alphabets a in {0,1,2,null}, b in {1,2,null}, s in {x,yx,null}; <=3 documents (4 thorough); "
           "requests limited to the generated grammar.")
chk("C07","qx twins","exploration",
    "Twin databases with identical history, one without secondary indexes: for 10 index sets (single asc/desc, composite with mixed directions, unique, created before or after the data) x every document multiset x mutation histories of <=2 steps, every filter/order/limit term of the grammar is answered by both and compared (multisets; sort-key sequences when ordered); after every history the raw index entries must equal those of the same index rebuilt from the current documents; a unique index must reject exactly the writes that a reference says would duplicate a live non-null value (BFS over create/update/delete histories).",
    E6_NOTE + " The scan path is the reference (its own semantics are C08's subject). Array/JSON/relation indexes are not in the alphabet yet.", "bounded-exhaustive differential enumeration (indexed vs plain twin) on the implementation", "§4 C07")
chk("C08","qx","exploration",
    "All document multisets up to k over the value alphabet (null-free and with nulls) x all requests of the grammar (atoms, _not, _and/_or pairs, 1-2 order keys x directions, limit/offset, count/sum/avg/min/max with filters, groupBy): compared with a reference evaluator where the documentation defines the result, and with metamorphic relations everywhere (F/_not F partition, _and = intersection, _or = union, limit/offset = slice of the unlimited order, aggregate = arithmetic over the listing). No-panic/no-hang: a 44-request corpus (commits, latestCommits, time travel, joins, aggregates, explain, mutations) and every single-token deletion/duplication/replacement of it, on signed and unsigned databases, under recover and a hang guard.",
    E6_NOTE, "bounded-exhaustive enumeration of inputs against a reference model + metamorphic oracles on the implementation", "§4 C08")
chk("C17","codecx","exploration",
    "All ordered pairs of per-kind boundary alphabets (Int ~400 values incl. every power of two +-1 and the varint format boundaries, Float64/Float32 incl. +-0, sub-normals, +-Inf and Nextafter neighbours, strings with 0x00/0xFF bytes and prefixes, nanosecond times, Bool) x {asc,desc}: sign(bytes.Compare(enc a, enc b)) = value order, null first, decode(encode v) = v; all pairs of (Int,String) tuples incl. nulls x 4 direction combinations through Encode/DecodeIndexDataStoreKey (order + split back into components); end-to-end: collections holding the alphabet in an indexed column, _gt/_ge/_lt/_le/_eq/_ne at every value and order asc/desc vs the scan twin.",
    "trusted: Go's own comparison of the value kinds; -0/+0 treated as one value (IEEE ==).", "exhaustive all-pairs enumeration over boundary alphabets on the real codec", "§4 C17")

chk("C13","codecx","exploration",
    "Schema/collection ids: every relation graph of primary links (incl. self and mutual links) over <=3 types with <=3 links (4 thorough) and 4 types with <=2 links (3 thorough): the (VersionID, CollectionID) assignment on a fresh database must be identical for a repeated run, every permutation of the SDL, reversed field order, every ordering of the partition into independent AddSchema calls, and every single deviating iteration order of the two map ranges in getSchemaSets (rewritten to an explorer-controlled iterator), plus all-reversed. Document ids: every subset of <=3 fields over 8 kinds x value alphabets x routes {JSON in every field permutation, JSON with explicit nulls for the other fields, Go map, GraphQL input, id actually stored}: one id per content.",
    "trusted: the map-range rewrite of getSchemaSets (overlay); alphabets as listed; injectivity of ids is not part of the statement and only reported.", "bounded-exhaustive enumeration of construction routes and iteration orders on the implementation, differential oracle", "§4 C13")

chk("C09","relx","exploration",
    "A relational world (G 1-N P, P 1-N K, P 1-1 O with the link on O, P self reference boss/minions) in 6 index configurations (none, foreign keys, child fields, parent fields, all, fk+parent fields): every data set (p1.n in {1,2,null} x multisets of <=2 K (3 thorough) over v x parent x 5 one-to-one layouts, self link and second hop varying pairwise) x every history of <=1 step (2 thorough) over 15 relink/unlink/delete/create steps x ~150 requests (both sides of every relation, foreign-key filters, filters through single/many/two-hop relations with _eq/_ne/_gt/_lt combined by _and/_or/_not with own-field conditions, aggregates over the many side, child sub-filters, order through the relation, limit): compared with a reference evaluator that derives both directions from the model's foreign keys where a related document exists, and across all configurations always; after every history no two live documents hold the same one-to-one link and a write the model says would create a second holder must be rejected; two explicit transactions that each give p0 a holder, all 6 interleavings.",
    "trusted: the reference evaluator (plain Go over the model of the writes); where the related document is missing or the compared value is null the reference is silent and only agreement with the configuration without indexes is required; spurious rejections are counted, not alarmed on.",
    "bounded-exhaustive enumeration of data sets, histories and requests on the implementation against a reference model + differential across index configurations", "§4 C09")

chk("C10","acpx","exploration",
    "Non-interference by twin, local document ACP engine enabled, 2 index configurations x requester in {second identity, anonymous}: every layout of 3 documents over {public, private, private+reader grant, private+writer grant} x every history of <=1 further step (2 thorough) over {grant/revoke reader/writer, owner update/delete, requester update/delete by id and by filter}; in every state ~130 requests (listing, showDeleted, 12 filters, order, limit/offset, count/sum/avg/min/max, groupBy, joins from both sides with filter/order/aggregate through the relation, _version, by docID, docID filter, foreign-key filter, commits / commits(docID) / commits(cid) / latestCommits, time travel T(cid, docID) for every commit x document) plus Collection.Get/Exists/GetAllDocIDs are answered for the requester by the real database and by a twin that replayed the same history without the documents the requester cannot read; answers must be identical. After every requester write attempt the owner's view of every document the requester may not update/delete is unchanged. Per layout a subscription script: the owner updates every document, the requester must be pushed exactly the readable updates.",
    "trusted: the acp_core engine's decisions and its own in-memory store (not part of the explored device); identities fixed by an owned random stream; requests run under a hang guard; subscription results awaited with a 60 s liveness deadline whose expiry is a harness error.",
    "bounded-exhaustive enumeration of permission layouts, histories and requests on the implementation with a twin-database (non-interference) oracle", "§4 C10")

chk("C11","encx","exploration",
    "Every encryption configuration (encrypt: true; encryptFields = every non-empty subset of {s1, s2, n}; thorough adds a pncounter) x every subset of fields present at creation x every update history of <=2 steps (3 thorough) over {one field, two fields, set to null}, every written value a unique byte pattern (20-byte string markers, 8-byte integers): after every step every value under /db/blocks and every event.Update.Block is searched for every pattern written so far to an encrypted field, key bytes must occur under /db/enc only, the writer reads back exactly the written values; then every composite commit is delivered (real syncDAG + merge) to a receiver that answers the key request with nothing - its whole store must be free of the patterns - and to a receiver that is given the key blocks, which must read back the written values.",
    "trusted: AES-GCM; a leak in a re-encoded form would not be seen; the key exchange is replaced by the harness answering encryption.RequestKeys events with the sender's /db/enc blocks or with nothing; writes go through the collection API (GraphQL Int literals are 32-bit).",
    "bounded-exhaustive enumeration of configurations and update histories on the implementation with a byte-pattern search over every stored and published block", "§4 C11")

chk("C12","sigx","exploration",
    "2 key types (secp256k1, ed25519) x 4 histories (create; update incl. a counter; delete; null) with signing on: every signed block verifies with the author's key through DB.VerifySignature and fails under every other key; every single-field tampering of every signed block (each byte of delta data and docID flipped, data truncated, field name, priority +-1, schema version id, delete status, counter nonce, every head/link removed / duplicated / replaced by every other block of the store / renamed / added, encryption link added) and of its signature block (each byte of the value flipped, truncated, empty, header type swapped / unknown, identity replaced by every other valid key or a byte flipped) is re-filed under its new cid with the signature link kept: verification must fail under every key (DB.VerifySignature and the receive-side VerifyBlockSignature), and every tampered composite pushed through the receive path (real syncDAG over a block service serving the sender's store, then the real merge) to a receiver holding the honest ancestors must return an error and leave documents, commit history, heads and data keys unchanged; the untampered commit is delivered as a control and must be accepted.",
    "trusted: ECDSA/EdDSA; single-field tampering only; a block whose signature link is removed is unsigned rather than forged and outside the statement (counted); a signature-block change that only relabels the header type leaves content, author key and signature value intact, so verification with the author's key is not required to fail for it.",
    "bounded-exhaustive enumeration of single-field tamperings on the real blocks, checked on the real verification and receive path", "§4 C12")

ALL = [f"C{i:02d}" for i in range(1, 21)]
NA_REASON = "check not built yet in this round (work in progress; see DESIGN.md §4 for the planned exhaustive check)"

def main():
    hooks = subprocess.run(["git","-C","/repo","log","--format=%h %s","--grep=^verif-hook:"],capture_output=True,text=True).stdout.strip().splitlines()
    m = {
     "version": 1,
     "setup_cmd": "bin/setup",
     "hooks": {"guard": "verif (go build tag)", "enable": "bin/vbuild: go build -tags verif -overlay /verif/.build/overlay-*.json (harness packages and rewritten files are mapped into /repo's module at build time; /repo is not modified)",
               "baseline_off_cmd": "cd /repo && GOFLAGS=-mod=mod go test -json -vet=off -count=1 -timeout 25m ./...",
               "source_commits": [h.split()[0] for h in hooks], "add_only": True},
     "engines": [
       {"name":"crdtx","path":"harness/crdtx","serves_properties":["C01","C02","C03","C04"],"kind_free_text":"explicit-state BFS over real replicas on a snapshotable store device"},
       {"name":"qx","path":"harness/qx","serves_properties":["C07","C08","C17"],"kind_free_text":"bounded-exhaustive document-set and request generator, reference evaluator, twin databases"},
       {"name":"relx","path":"harness/checks/c09.go","serves_properties":["C09"],"kind_free_text":"relational data set/history/request enumerator with a foreign-key reference model, run on every index configuration"},
       {"name":"acpx","path":"harness/checks/c10.go","serves_properties":["C10"],"kind_free_text":"permission layout/history enumerator with a twin database that never held the unreadable documents"},
       {"name":"encx","path":"harness/checks/c11.go","serves_properties":["C11"],"kind_free_text":"encryption configuration/history enumerator with a secret-pattern scanner over stores and update events, keyless and keyed receivers"},
       {"name":"sigx","path":"harness/checks/c12.go","serves_properties":["C12"],"kind_free_text":"single-field tamper enumerator over signed blocks and signature blocks, verification + receive-path oracle"},
       {"name":"txnx","path":"harness/checks/c06.go","serves_properties":["C06"],"kind_free_text":"interleaving enumerator for explicit transactions with a snapshot-isolation model"},
       {"name":"faultx","path":"harness/faultx","serves_properties":["C05"],"kind_free_text":"single-fault enumeration of every storage call of every operation"},
       {"name":"vkv","path":"harness/vkv","serves_properties":[],"kind_free_text":"snapshotable transactional store device; bound to badger by `vcheck CONFORM` (exhaustive differential run) in setup"},
     ],
     "checks": [CHECKS[p] for p in ALL if p in CHECKS],
     "not_applicable": [{"property_id":p,"reason":NA_REASON} for p in ALL if p not in CHECKS],
     "notes": "All checks rebuild their binary from /repo's working tree through an overlay build (bin/vbuild). Exit 2 = harness error (never a verdict).",
    }
    json.dump(m, open("/verif/MANIFEST.json","w"), indent=1)
main()
