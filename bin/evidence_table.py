#!/usr/bin/env python3
# Prints a markdown table of what the committed evidence files report (used for DESIGN.md 8.5).
import json,glob,os
rows=[]
for f in sorted(glob.glob('/verif/evidence/C*.json')):
    e=json.load(open(f)); c=e.get('coverage',{})
    nums=[]
    for k in ('states','transitions','executions','schedules','evaluations','histories','document_sets','worlds_real_plus_twin','distinct_nontrivial','distinct_outcomes'):
        if isinstance(c.get(k),(int,float)): nums.append(f"{k}={int(c[k])}")
    rows.append((e.get('property_id'), e.get('tier'), f"{e.get('wall_s',0):.0f} s", c.get('exhaustive'), ', '.join(nums[:5]), e.get('violations')))
print("| check | tier | wall | exhaustive | counts reported by the run | unlisted violations |\n|---|---|---|---|---|---|")
for r in rows: print("| "+" | ".join(str(x) for x in r)+" |")
