// Package rep writes evidence files, replay artefacts and the VIOLATION / KNOWN-FINDING lines
// (DESIGN.md §2.4).
package rep

import (
	"crypto/sha256"
	"encoding/hex"
	"encoding/json"
	"fmt"
	"os"
	"os/exec"
	"path/filepath"
	"sort"
	"strconv"
	"strings"
	"sync"
	"time"
)

const Root = "/verif"

type Finding struct {
	Property    string `json:"property"`
	Fingerprint string `json:"fingerprint"`
	What        string `json:"what"`
}

type knownFile struct {
	Findings []Finding `json:"findings"`
	Fixed    []string  `json:"fixed"`
}

type Violation struct {
	Fingerprint string
	Summary     string
	Replay      any
}

type Run struct {
	Prop, Tier, Level string
	Seed              int
	Coverage          map[string]any
	Assumptions       []string
	start             time.Time
	mu                sync.Mutex
	known             map[string]Finding
	knownHit          map[string]int
	unknown           map[string]string // fingerprint -> replay path
	unknownN          int
	samples           []any
}

func Tier() string {
	if t := os.Getenv("VERIF_TIER"); t == "thorough" {
		return "thorough"
	}
	return "quick"
}

func Seed() int {
	n, _ := strconv.Atoi(os.Getenv("VERIF_SEED"))
	return n
}

func New(prop, level string) *Run {
	r := &Run{Prop: prop, Tier: Tier(), Level: level, Seed: Seed(), Coverage: map[string]any{}, start: time.Now(),
		known: map[string]Finding{}, knownHit: map[string]int{}, unknown: map[string]string{}}
	replaying := false
	for _, a := range os.Args[1:] {
		if a == "replay" {
			replaying = true // a replay reads a file of that directory
		}
	}
	if os.Getenv("VERIF_EVIDENCE_DIR") == "" && !replaying {
		_ = os.RemoveAll(filepath.Join(Root, "replays", prop))
	}
	var kf knownFile
	if b, err := os.ReadFile(filepath.Join(Root, "known_findings.json")); err == nil {
		if err := json.Unmarshal(b, &kf); err != nil {
			fmt.Fprintf(os.Stderr, "HARNESS-ERROR: known_findings.json: %v\n", err)
			os.Exit(2)
		}
	}
	for _, f := range kf.Findings {
		if f.Property == prop {
			r.known[f.Fingerprint] = f
		}
	}
	return r
}

// Sample records one explored case for the evidence file (first 8 are kept).
func (r *Run) Sample(s any) {
	r.mu.Lock()
	if len(r.samples) < 8 {
		r.samples = append(r.samples, s)
	}
	r.mu.Unlock()
}

// Violation records a violation. fingerprint names the class (failing input / call site / history
// class); the first violation of every unknown class gets a replay file.
func (r *Run) Violation(v Violation) {
	r.mu.Lock()
	defer r.mu.Unlock()
	if _, ok := r.known[v.Fingerprint]; ok {
		r.knownHit[v.Fingerprint]++
		return
	}
	r.unknownN++
	if _, ok := r.unknown[v.Fingerprint]; ok {
		return
	}
	h := sha256.Sum256([]byte(v.Fingerprint))
	dir := filepath.Join(Root, "replays", r.Prop)
	_ = os.MkdirAll(dir, 0o755)
	p := filepath.Join(dir, hex.EncodeToString(h[:6])+".json")
	b, _ := json.MarshalIndent(map[string]any{"property": r.Prop, "fingerprint": v.Fingerprint, "summary": v.Summary, "replay": v.Replay}, "", " ")
	_ = os.WriteFile(p, b, 0o644)
	r.unknown[v.Fingerprint] = p
	if os.Getenv("VERIF_DEBUG") != "" {
		fmt.Fprintf(os.Stderr, "DEBUG violation %s\n  %s\n", v.Fingerprint, v.Summary)
	}
}

func (r *Run) Violations() int { r.mu.Lock(); defer r.mu.Unlock(); return r.unknownN }

// Finish writes the evidence file, prints the verdict lines and returns the exit code.
func (r *Run) Finish() int {
	r.mu.Lock()
	defer r.mu.Unlock()
	if _, ok := r.Coverage["samples"]; !ok {
		if r.samples == nil {
			r.samples = []any{}
		}
		r.Coverage["samples"] = r.samples
	}
	kh := 0
	for _, n := range r.knownHit {
		kh += n
	}
	r.Coverage["known_finding_hits"] = kh
	ev := map[string]any{
		"property_id": r.Prop, "tier": r.Tier, "seed": r.Seed, "level": r.Level,
		"coverage": r.Coverage, "assumptions": r.Assumptions,
		"wall_s": time.Since(r.start).Seconds(), "violations": r.unknownN,
	}
	b, _ := json.MarshalIndent(ev, "", " ")
	evDir := filepath.Join(Root, "evidence")
	if d := os.Getenv("VERIF_EVIDENCE_DIR"); d != "" { // trial runs that must not replace the committed evidence
		evDir = d
	}
	_ = os.MkdirAll(evDir, 0o755)
	if err := os.WriteFile(filepath.Join(evDir, r.Prop+".json"), b, 0o644); err != nil {
		fmt.Fprintf(os.Stderr, "HARNESS-ERROR: cannot write evidence: %v\n", err)
		return 2
	}
	var fps []string
	for fp := range r.knownHit {
		fps = append(fps, fp)
	}
	sort.Strings(fps)
	for _, fp := range fps {
		fmt.Printf("KNOWN-FINDING: property=%s %s (fingerprint=%s, hits=%d)\n", r.Prop, r.known[fp].What, fp, r.knownHit[fp])
	}
	fps = fps[:0]
	for fp := range r.unknown {
		fps = append(fps, fp)
	}
	sort.Strings(fps)
	for _, fp := range fps {
		fmt.Printf("VIOLATION property=%s replay=%s\n", r.Prop, r.unknown[fp])
		fmt.Printf("  class: %s\n", fp)
	}
	if len(r.unknown) > 0 {
		return 1
	}
	return 0
}

// HarnessError aborts with exit code 2: the machinery, not the property, is at fault.
func HarnessError(format string, a ...any) {
	fmt.Fprintf(os.Stderr, "HARNESS-ERROR: "+format+"\n", a...)
	os.Exit(2)
}

// Shard returns (i, n) when this process is one shard of a sharded run (env VERIF_SHARD="i/n").
func Shard() (int, int) {
	var i, n int
	if _, err := fmt.Sscanf(os.Getenv("VERIF_SHARD"), "%d/%d", &i, &n); err != nil || n <= 0 {
		return 0, 1
	}
	return i, n
}

// RunSharded re-executes the current check n times, one shard after the other (memory is returned
// to the system between shards), and merges the shards' evidence: integer coverage counts are
// added, exhaustive is the conjunction, samples are concatenated; the shards' VIOLATION and
// KNOWN-FINDING lines pass through (known findings once). Exit code: 1 if any shard reported a
// violation, 2 if any shard failed as a harness error, else 0.
func RunSharded(prop, level string, n int) int {
	start := time.Now()
	dir, err := os.MkdirTemp("", "verif-shards-")
	if err != nil {
		HarnessError("shards: %v", err)
	}
	defer os.RemoveAll(dir)
	_ = os.RemoveAll(filepath.Join(Root, "replays", prop))
	merged := map[string]any{}
	exhaustive := true
	var samples []any
	var assumptions []any
	code := 0
	viol := 0
	seenKnown := map[string]bool{}
	distinct := map[string]bool{}
	for i := 0; i < n; i++ {
		sd := filepath.Join(dir, strconv.Itoa(i))
		cmd := exec.Command(os.Args[0], os.Args[1:]...)
		cmd.Env = append(os.Environ(), fmt.Sprintf("VERIF_SHARD=%d/%d", i, n), "VERIF_EVIDENCE_DIR="+sd)
		cmd.Stderr = os.Stderr
		out, err := cmd.Output()
		for _, line := range strings.Split(string(out), "\n") {
			if strings.HasPrefix(line, "KNOWN-FINDING:") {
				if !seenKnown[line[:min(len(line), 200)]] {
					seenKnown[line[:min(len(line), 200)]] = true
					fmt.Println(line)
				}
			} else if line != "" {
				fmt.Println(line)
			}
		}
		if err != nil {
			if ee, ok := err.(*exec.ExitError); ok && ee.ExitCode() == 1 {
				code = 1
			} else {
				fmt.Fprintf(os.Stderr, "HARNESS-ERROR: shard %d/%d: %v\n", i, n, err)
				return 2
			}
		}
		b, err := os.ReadFile(filepath.Join(sd, prop+".json"))
		if err != nil {
			fmt.Fprintf(os.Stderr, "HARNESS-ERROR: shard %d/%d wrote no evidence: %v\n", i, n, err)
			return 2
		}
		var ev struct {
			Coverage    map[string]any `json:"coverage"`
			Assumptions []any          `json:"assumptions"`
			Violations  int            `json:"violations"`
		}
		if err := json.Unmarshal(b, &ev); err != nil {
			HarnessError("shard evidence: %v", err)
		}
		viol += ev.Violations
		assumptions = ev.Assumptions
		for k, v := range ev.Coverage {
			switch x := v.(type) {
			case float64:
				if k == "history_depth_beyond_layout" || k == "request_kinds" || strings.HasPrefix(k, "max_") {
					if old, ok := merged[k].(float64); !ok || x > old {
						merged[k] = x
					}
				} else if old, ok := merged[k].(float64); ok {
					merged[k] = old + x
				} else if _, seen := merged[k]; !seen {
					merged[k] = x
				}
			case bool:
				if k == "exhaustive" {
					exhaustive = exhaustive && x
				}
			case []any:
				if k == "samples" && len(samples) < 8 {
					samples = append(samples, x...)
				}
				if k == "distinct_keys" {
					for _, e := range x {
						distinct[fmt.Sprint(e)] = true
					}
				}
			default:
				if _, seen := merged[k]; !seen {
					merged[k] = v
				}
			}
		}
	}
	for k, v := range merged {
		if f, ok := v.(float64); ok && f == float64(int64(f)) {
			merged[k] = int64(f)
		}
	}
	if len(samples) > 8 {
		samples = samples[:8]
	}
	if len(distinct) > 0 {
		merged["distinct_nontrivial"] = len(distinct) // union over the shards
	}
	delete(merged, "distinct_keys")
	merged["samples"] = samples
	merged["exhaustive"] = exhaustive
	merged["shards"] = n
	ev := map[string]any{"property_id": prop, "tier": Tier(), "seed": Seed(), "level": level, "coverage": merged,
		"assumptions": assumptions, "wall_s": time.Since(start).Seconds(), "violations": viol}
	b, _ := json.MarshalIndent(ev, "", " ")
	evDir := filepath.Join(Root, "evidence")
	if d := os.Getenv("VERIF_EVIDENCE_DIR"); d != "" {
		evDir = d
	}
	_ = os.MkdirAll(evDir, 0o755)
	if err := os.WriteFile(filepath.Join(evDir, prop+".json"), b, 0o644); err != nil {
		HarnessError("cannot write evidence: %v", err)
	}
	return code
}
