// Package rep writes evidence files, replay artefacts and the VIOLATION / KNOWN-FINDING lines
// (DESIGN.md §2.4).
package rep

import (
	"crypto/sha256"
	"encoding/hex"
	"encoding/json"
	"fmt"
	"os"
	"path/filepath"
	"sort"
	"strconv"
	"sync"
	"time"
)

const Root = "/verif"

type Finding struct {
	Property    string `json:"property"`
	Fingerprint string `json:"fingerprint"`
	What        string `json:"what"`
}

type knownFile struct {
	Findings []Finding `json:"findings"`
	Fixed    []string  `json:"fixed"`
}

type Violation struct {
	Fingerprint string
	Summary     string
	Replay      any
}

type Run struct {
	Prop, Tier, Level string
	Seed              int
	Coverage          map[string]any
	Assumptions       []string
	start             time.Time
	mu                sync.Mutex
	known             map[string]Finding
	knownHit          map[string]int
	unknown           map[string]string // fingerprint -> replay path
	unknownN          int
	samples           []any
}

func Tier() string {
	if t := os.Getenv("VERIF_TIER"); t == "thorough" {
		return "thorough"
	}
	return "quick"
}

func Seed() int {
	n, _ := strconv.Atoi(os.Getenv("VERIF_SEED"))
	return n
}

func New(prop, level string) *Run {
	r := &Run{Prop: prop, Tier: Tier(), Level: level, Seed: Seed(), Coverage: map[string]any{}, start: time.Now(),
		known: map[string]Finding{}, knownHit: map[string]int{}, unknown: map[string]string{}}
	if os.Getenv("VERIF_EVIDENCE_DIR") == "" {
		_ = os.RemoveAll(filepath.Join(Root, "replays", prop))
	}
	var kf knownFile
	if b, err := os.ReadFile(filepath.Join(Root, "known_findings.json")); err == nil {
		if err := json.Unmarshal(b, &kf); err != nil {
			fmt.Fprintf(os.Stderr, "HARNESS-ERROR: known_findings.json: %v\n", err)
			os.Exit(2)
		}
	}
	for _, f := range kf.Findings {
		if f.Property == prop {
			r.known[f.Fingerprint] = f
		}
	}
	return r
}

// Sample records one explored case for the evidence file (first 8 are kept).
func (r *Run) Sample(s any) {
	r.mu.Lock()
	if len(r.samples) < 8 {
		r.samples = append(r.samples, s)
	}
	r.mu.Unlock()
}

// Violation records a violation. fingerprint names the class (failing input / call site / history
// class); the first violation of every unknown class gets a replay file.
func (r *Run) Violation(v Violation) {
	r.mu.Lock()
	defer r.mu.Unlock()
	if _, ok := r.known[v.Fingerprint]; ok {
		r.knownHit[v.Fingerprint]++
		return
	}
	r.unknownN++
	if _, ok := r.unknown[v.Fingerprint]; ok {
		return
	}
	h := sha256.Sum256([]byte(v.Fingerprint))
	dir := filepath.Join(Root, "replays", r.Prop)
	_ = os.MkdirAll(dir, 0o755)
	p := filepath.Join(dir, hex.EncodeToString(h[:6])+".json")
	b, _ := json.MarshalIndent(map[string]any{"property": r.Prop, "fingerprint": v.Fingerprint, "summary": v.Summary, "replay": v.Replay}, "", " ")
	_ = os.WriteFile(p, b, 0o644)
	r.unknown[v.Fingerprint] = p
	if os.Getenv("VERIF_DEBUG") != "" {
		fmt.Fprintf(os.Stderr, "DEBUG violation %s\n  %s\n", v.Fingerprint, v.Summary)
	}
}

func (r *Run) Violations() int { r.mu.Lock(); defer r.mu.Unlock(); return r.unknownN }

// Finish writes the evidence file, prints the verdict lines and returns the exit code.
func (r *Run) Finish() int {
	r.mu.Lock()
	defer r.mu.Unlock()
	if _, ok := r.Coverage["samples"]; !ok {
		if r.samples == nil {
			r.samples = []any{}
		}
		r.Coverage["samples"] = r.samples
	}
	kh := 0
	for _, n := range r.knownHit {
		kh += n
	}
	r.Coverage["known_finding_hits"] = kh
	ev := map[string]any{
		"property_id": r.Prop, "tier": r.Tier, "seed": r.Seed, "level": r.Level,
		"coverage": r.Coverage, "assumptions": r.Assumptions,
		"wall_s": time.Since(r.start).Seconds(), "violations": r.unknownN,
	}
	b, _ := json.MarshalIndent(ev, "", " ")
	evDir := filepath.Join(Root, "evidence")
	if d := os.Getenv("VERIF_EVIDENCE_DIR"); d != "" { // trial runs that must not replace the committed evidence
		evDir = d
	}
	_ = os.MkdirAll(evDir, 0o755)
	if err := os.WriteFile(filepath.Join(evDir, r.Prop+".json"), b, 0o644); err != nil {
		fmt.Fprintf(os.Stderr, "HARNESS-ERROR: cannot write evidence: %v\n", err)
		return 2
	}
	var fps []string
	for fp := range r.knownHit {
		fps = append(fps, fp)
	}
	sort.Strings(fps)
	for _, fp := range fps {
		fmt.Printf("KNOWN-FINDING: property=%s %s (fingerprint=%s, hits=%d)\n", r.Prop, r.known[fp].What, fp, r.knownHit[fp])
	}
	fps = fps[:0]
	for fp := range r.unknown {
		fps = append(fps, fp)
	}
	sort.Strings(fps)
	for _, fp := range fps {
		fmt.Printf("VIOLATION property=%s replay=%s\n", r.Prop, r.unknown[fp])
		fmt.Printf("  class: %s\n", fp)
	}
	if len(r.unknown) > 0 {
		return 1
	}
	return 0
}

// HarnessError aborts with exit code 2: the machinery, not the property, is at fault.
func HarnessError(format string, a ...any) {
	fmt.Fprintf(os.Stderr, "HARNESS-ERROR: "+format+"\n", a...)
	os.Exit(2)
}
