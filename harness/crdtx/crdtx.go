// Package crdtx is engine E1 (DESIGN.md §3): explicit-state search of a group of real db.DB
// replicas over the vkv device. A state is the full store content of every node; a transition is a
// real local mutation or the real delivery (syncDAG + executeMerge) of one commit to one node.
package crdtx

import (
	"context"
	"crypto/sha256"
	"encoding/hex"
	"fmt"
	"sort"
	"strings"
	"sync"
	"time"

	"github.com/ipfs/boxo/blockservice"
	dshelp "github.com/ipfs/boxo/datastore/dshelp"
	blocks "github.com/ipfs/go-block-format"
	"github.com/ipfs/go-cid"
	ds "github.com/ipfs/go-datastore"
	ipld "github.com/ipfs/go-ipld-format"
	mh "github.com/multiformats/go-multihash"

	"github.com/sourcenetwork/corekv"

	"github.com/sourcenetwork/defradb/event"
	coreblock "github.com/sourcenetwork/defradb/internal/core/block"
	"github.com/sourcenetwork/defradb/internal/datastore"
	"github.com/sourcenetwork/defradb/internal/db"
	"github.com/sourcenetwork/defradb/internal/verifh/vkv"
	"github.com/sourcenetwork/defradb/internal/verifh/world"
	defranet "github.com/sourcenetwork/defradb/net"
)

// OpKind is one local mutation of the alphabet.
type OpKind struct {
	Name  string // label
	Field string // field written ("" for delete/create)
	Kind  string // inc | set | null | del | create
}

type Config struct {
	N          int      // replicas
	L          int      // bound on local operations in the whole group
	Variant    int      // nonce / value variant (hash orderings)
	SDL        string   // schema
	Coll       string   // collection name
	PostSchema []string // requests run on every node after AddSchema (index creation through the API)
	Indexes    []IndexSpec
	Ops        []OpKind
	PreCreate  bool // document 0 exists on every node in the initial state
	Writers    int  // only nodes < Writers issue local operations (0 = all); the others only receive
	Workers    int
	Deadline   time.Time // zero = none; hitting it ends the search with exhaustive=false
	// RegisterFields / CounterFields name the fields the reference model tracks.
	Registers []string
	Counters  []string
	Store     func() corekv.TxnStore // nil = vkv
	// TimeTravel makes the oracle query the document at every merged commit (C03, branching histories).
	TimeTravel bool
	// IndexProbe names a register field that carries a secondary index: in every state an index-backed
	// read for every value ever written (and null) must agree with the listing.
	IndexProbe string
}

type IndexSpec struct {
	Field  string
	Unique bool
}

// Effect is what a commit does, in reference-model terms.
type Effect struct {
	Kind  string // create inc set null del
	Field string
	Inc   int64
	Val   string // for set
	// create: initial values
	Init map[string]any
}

type Commit struct {
	Ord    int
	Cid    cid.Cid
	Origin int
	Height uint64
	Anc    uint64 // closure incl. self, bit per Ord
	Par    uint64 // direct parents
	Eff    Effect
}

type State struct {
	snaps   []vkv.Snap
	hashes  [][32]byte
	commits []*Commit
	M       []uint64
	nops    int
	seq     []int
	parent  *State
	label   string
	depth   int
}

func (s *State) Path() []string {
	var p []string
	for x := s; x != nil && x.parent != nil; x = x.parent {
		p = append(p, x.label)
	}
	for i, j := 0, len(p)-1; i < j; i, j = i+1, j-1 {
		p[i], p[j] = p[j], p[i]
	}
	return p
}

// Obs is what the oracles look at for one node.
type Obs struct {
	Rows    []map[string]any // Coll(showDeleted:true){...}
	RowsErr []string
	Heads   map[string]uint64 // composite heads of the document: cid -> recorded height
	Canon   string
}

// Violation kinds are attributed to the property whose oracle found them.
type Viol struct {
	Prop        string
	Fingerprint string
	Detail      string
	Path        []string
	OtherPath   []string // for relations between two paths (path independence): the earlier path
}

type Stats struct {
	States, Transitions int
	Outcomes            map[string]struct{}
	MaxDepth            int
	Exhaustive          bool
	MergeCalls          int
	SelfLoops           int
	CidPairs, CidPairsBoth int
}

// dev is the storage device under a node: vkv for the search, badger for trace validation.
type dev interface {
	corekv.TxnStore
	Snapshot() vkv.Snap
	Restore(vkv.Snap)
}

// badgerDev adapts the store of the repository's test-suite; it cannot be restored, so it is only
// used for sequential replays.
type badgerDev struct{ corekv.TxnStore }

func (b badgerDev) Snapshot() vkv.Snap { return vkv.SnapOf(context.Background(), b.TxnStore) }
func (b badgerDev) Restore(vkv.Snap)   {}

type worker struct {
	cfg    *Config
	ctx    context.Context
	dbs    []*db.DB
	stores []dev
	colID  string
	docID  string
	badger bool
}

const docCreate = `{"name": "a", "c": 1}`

func createReq(cfg *Config) string {
	return fmt.Sprintf(`mutation { create_%s(input: {name: "a", c: 1}) { _docID } }`, cfg.Coll)
}

func newWorker(cfg *Config, badger bool) (*worker, []vkv.Snap, error) {
	ctx := context.Background()
	w := &worker{cfg: cfg, ctx: ctx, badger: badger}
	var snaps []vkv.Snap
	for i := 0; i < cfg.N; i++ {
		world.SeedRand("init", cfg.Variant, i)
		var st dev = vkv.NewStore()
		if badger {
			b, err := world.NewBadger(ctx)
			if err != nil {
				return nil, nil, err
			}
			st = badgerDev{b}
		}
		d, err := world.NewDB(ctx, st)
		if err != nil {
			return nil, nil, err
		}
		cols, err := d.AddSchema(ctx, cfg.SDL)
		if err != nil {
			return nil, nil, err
		}
		for _, c := range cols {
			if c.Name == cfg.Coll {
				w.colID = c.CollectionID
			}
		}
		for _, r := range cfg.PostSchema {
			if _, errs := world.Exec(ctx, d, r); len(errs) > 0 {
				return nil, nil, fmt.Errorf("post-schema request failed: %v", errs)
			}
		}
		w.dbs = append(w.dbs, d)
		w.stores = append(w.stores, st)
		snaps = append(snaps, st.Snapshot())
	}
	return w, snaps, nil
}

func (w *worker) close() {
	for _, d := range w.dbs {
		d.Close()
	}
}

// snapExchange serves blocks out of an immutable snapshot of the sender's store.
type snapExchange struct{ sn vkv.Snap }

func blockKey(c cid.Cid) string {
	return "/db/blocks" + dshelp.MultihashToDsKey(c.Hash()).String()
}

func (e snapExchange) GetBlock(ctx context.Context, c cid.Cid) (blocks.Block, error) {
	v, ok := e.sn.Get(blockKey(c))
	if !ok {
		return nil, ipld.ErrNotFound{Cid: c}
	}
	return blocks.NewBlockWithCid(v, c)
}
func (e snapExchange) GetBlocks(ctx context.Context, cs []cid.Cid) (<-chan blocks.Block, error) {
	ch := make(chan blocks.Block, len(cs))
	for _, c := range cs {
		if b, err := e.GetBlock(ctx, c); err == nil {
			ch <- b
		}
	}
	close(ch)
	return ch, nil
}
func (e snapExchange) NotifyNewBlocks(ctx context.Context, bs ...blocks.Block) error { return nil }
func (e snapExchange) Close() error                                                  { return nil }

// Deliver is the receive path of a pushed log: syncDAG over an exchange serving the sender's
// blocks, then the real merge, synchronously.
func Deliver(ctx context.Context, d *db.DB, store corekv.TxnStore, from vkv.Snap, docID, colID string, c cid.Cid) error {
	raw, ok := from.Get(blockKey(c))
	if !ok {
		return fmt.Errorf("harness: sender does not hold %s", c)
	}
	blk, err := coreblock.GetFromBytes(raw)
	if err != nil {
		return err
	}
	bs := blockservice.New(datastore.BlockstoreFrom(store), snapExchange{from})
	if err := defranet.VerifSyncDAG(ctx, bs, blk); err != nil {
		return fmt.Errorf("syncDAG: %w", err)
	}
	return d.VerifMerge(ctx, event.Merge{DocID: docID, Cid: c, CollectionID: colID})
}

// docHeads reads the composite heads of a document straight from a snapshot.
func docHeads(sn vkv.Snap, docID string) map[string]uint64 {
	out := map[string]uint64{}
	pre := "/db/heads/d/" + docID + "/C/"
	sn.Each(func(k string, v []byte) {
		if strings.HasPrefix(k, pre) {
			h, _ := uvarint(v)
			out[k[len(pre):]] = h
		}
	})
	return out
}

func uvarint(b []byte) (uint64, int) {
	var x uint64
	var s uint
	for i, c := range b {
		if c < 0x80 {
			return x | uint64(c)<<s, i + 1
		}
		x |= uint64(c&0x7f) << s
		s += 7
	}
	return 0, 0
}

func loadBlock(sn vkv.Snap, c cid.Cid) (*coreblock.Block, error) {
	raw, ok := sn.Get(blockKey(c))
	if !ok {
		return nil, fmt.Errorf("block %s not in store", c)
	}
	return coreblock.GetFromBytes(raw)
}

func (w *worker) restore(s *State) {
	for i, st := range w.stores {
		st.Restore(s.snaps[i])
	}
}

func (w *worker) observe(i int, sn vkv.Snap) Obs {
	fields := append(append([]string{}, w.cfg.Registers...), w.cfg.Counters...)
	req := fmt.Sprintf(`query { %s(showDeleted: true) { _docID _deleted %s } }`, w.cfg.Coll, strings.Join(fields, " "))
	data, errs := world.Exec(w.ctx, w.dbs[i], req)
	o := Obs{Rows: world.Rows(data, w.cfg.Coll), RowsErr: errs}
	if w.docID != "" {
		o.Heads = docHeads(sn, w.docID)
	}
	hs := make([]string, 0, len(o.Heads))
	for h, ht := range o.Heads {
		hs = append(hs, fmt.Sprintf("%s@%d", h, ht))
	}
	sort.Strings(hs)
	o.Canon = world.CanonRowsUnordered(o.Rows) + "|" + strings.Join(errs, ";") + "|" + strings.Join(hs, ",")
	return o
}

// Explorer runs the breadth-first search.
type Explorer struct {
	Cfg   Config
	Stats Stats
	Viols []Viol

	mu       sync.Mutex
	seen     map[[32]byte]struct{}
	table    map[string]tableEnt // merged-set -> observable (path independence)
	cidOrder map[[2]int]int      // concurrent commit pair (ordinals by effect identity) -> bitmask of orders seen
	docID    string
	Check    func(e *Explorer, w *worker, prev, ns *State, node int, label string, mergeErr error, ob Obs) []Viol
	samples  [][]string
}

type tableEnt struct {
	canon string
	path  []string
}

func keyOf(s *State) [32]byte {
	h := sha256.New()
	for _, x := range s.hashes {
		h.Write(x[:])
	}
	fmt.Fprint(h, s.seq, s.nops)
	var out [32]byte
	copy(out[:], h.Sum(nil))
	return out
}

func cloneState(s *State, label string) *State {
	ns := &State{snaps: append([]vkv.Snap{}, s.snaps...), hashes: append([][32]byte{}, s.hashes...),
		commits: s.commits, M: append([]uint64{}, s.M...), nops: s.nops, seq: append([]int{}, s.seq...),
		parent: s, label: label, depth: s.depth + 1}
	return ns
}

func (s *State) byCid(c string) *Commit {
	for _, x := range s.commits {
		if x.Cid.String() == c {
			return x
		}
	}
	return nil
}

// amount of the k-th increment of the path: distinct decimal digits so that a double application
// or a loss can never cancel out.
func incAmount(k int) int64 {
	a := int64(1)
	for i := 0; i <= k; i++ {
		a *= 10
	}
	return a
}

type transition struct {
	label string
	node  int
	run   func(w *worker, s, ns *State) (mergeErr error, skip bool, err error)
}

func (e *Explorer) transitions(s *State) []transition {
	cfg := &e.Cfg
	var trs []transition
	if s.nops < cfg.L {
		for i := 0; i < cfg.N && (cfg.Writers == 0 || i < cfg.Writers); i++ {
			for _, op := range cfg.Ops {
				i, op := i, op
				trs = append(trs, transition{label: fmt.Sprintf("op n%d %s", i, op.Name), node: i,
					run: func(w *worker, s, ns *State) (error, bool, error) { return nil, false, e.localOp(w, s, ns, i, op) }})
			}
		}
	}
	for _, c := range s.commits {
		for j := 0; j < cfg.N; j++ {
			if j == c.Origin && s.M[j]&(1<<uint(c.Ord)) != 0 && cfg.N > 1 {
				// a node is never sent its own commit back by the transport; redelivery of commits a
				// node already holds is covered by every other (commit, node) pair.
				continue
			}
			c, j := c, j
			trs = append(trs, transition{label: fmt.Sprintf("deliver c%d->n%d", c.Ord, j), node: j,
				run: func(w *worker, s, ns *State) (error, bool, error) {
					merr := Deliver(w.ctx, w.dbs[j], w.stores[j], s.snaps[c.Origin], w.docID, w.colID, c.Cid)
					if merr == nil {
						ns.M[j] |= c.Anc
					}
					return merr, false, nil
				}})
		}
	}
	return trs
}

var errSkip = fmt.Errorf("skip")

// localOp runs one mutation on node i and registers the commit it created.
func (e *Explorer) localOp(w *worker, s, ns *State, i int, op OpKind) error {
	cfg := &e.Cfg
	world.SeedRand("op", cfg.Variant, i, s.seq[i])
	var req string
	eff := Effect{Kind: op.Kind, Field: op.Field}
	exists := s.M[i] != 0
	switch op.Kind {
	case "create":
		if exists {
			return errSkip
		}
		req = createReq(cfg)
		eff.Init = map[string]any{"name": "a", "c": int64(1)}
	case "inc":
		if !exists {
			return errSkip
		}
		eff.Inc = incAmount(s.nops)
		req = fmt.Sprintf(`mutation { update_%s(docID: %q, input: {%s: %d}) { _docID } }`, cfg.Coll, w.docID, op.Field, eff.Inc)
	case "set":
		if !exists {
			return errSkip
		}
		eff.Val = fmt.Sprintf("v%d_%d", i, cfg.Variant%2)
		req = fmt.Sprintf(`mutation { update_%s(docID: %q, input: {%s: %q}) { _docID } }`, cfg.Coll, w.docID, op.Field, eff.Val)
	case "null":
		if !exists {
			return errSkip
		}
		req = fmt.Sprintf(`mutation { update_%s(docID: %q, input: {%s: null}) { _docID } }`, cfg.Coll, w.docID, op.Field)
	case "del":
		if !exists {
			return errSkip
		}
		req = fmt.Sprintf(`mutation { delete_%s(docID: %q) { _docID } }`, cfg.Coll, w.docID)
	}
	before := docHeads(s.snaps[i], w.docID)
	data, errs := world.Exec(w.ctx, w.dbs[i], req)
	if len(errs) > 0 {
		// a local write may legitimately be refused (document deleted on this node): no transition
		return errSkip
	}
	if rows := world.Rows(data, strings.SplitN(strings.TrimPrefix(req, "mutation { "), "(", 2)[0]); len(rows) == 0 {
		return errSkip // nothing matched (deleted document): no commit was created
	}
	after := docHeads(w.stores[i].Snapshot(), w.docID)
	var fresh []string
	for h := range after {
		if _, ok := before[h]; !ok {
			fresh = append(fresh, h)
		}
	}
	if len(fresh) != 1 {
		return fmt.Errorf("local op %q on n%d produced %d new heads (before %v after %v)", req, i, len(fresh), before, after)
	}
	cd, err := cid.Decode(fresh[0])
	if err != nil {
		return err
	}
	ns.seq[i]++
	ns.nops++
	if old := s.byCid(fresh[0]); old != nil {
		// the same commit already exists (identical creation on another node)
		ns.M[i] |= old.Anc
		return nil
	}
	blk, err := loadBlock(w.stores[i].Snapshot(), cd)
	if err != nil {
		return err
	}
	c := &Commit{Ord: len(s.commits), Cid: cd, Origin: i, Height: blk.Delta.GetPriority(), Eff: eff}
	if c.Ord >= 63 {
		return fmt.Errorf("too many commits")
	}
	c.Anc = 1 << uint(c.Ord)
	for _, h := range blk.Heads {
		p := s.byCid(h.Cid.String())
		if p == nil {
			return fmt.Errorf("new commit names unknown parent %s", h.Cid)
		}
		c.Anc |= p.Anc
		c.Par |= 1 << uint(p.Ord)
	}
	ns.commits = append(append([]*Commit{}, s.commits...), c)
	ns.M[i] |= c.Anc
	return nil
}

// Run explores the whole space of cfg; check is called for the changed node after every transition.
func (e *Explorer) Run() error {
	cfg := &e.Cfg
	if cfg.Workers <= 0 {
		cfg.Workers = 8
	}
	e.seen = map[[32]byte]struct{}{}
	e.table = map[string]tableEnt{}
	e.Stats.Outcomes = map[string]struct{}{}
	workers := make([]*worker, cfg.Workers)
	var initSnaps []vkv.Snap
	for k := range workers {
		w, snaps, err := newWorker(cfg, false)
		if err != nil {
			return err
		}
		workers[k] = w
		if k == 0 {
			initSnaps = snaps
		} else {
			for i := range snaps {
				if snaps[i].Hash(nil) != initSnaps[i].Hash(nil) {
					return fmt.Errorf("determinism self-check failed: initial store of node %d differs between workers", i)
				}
			}
		}
	}
	defer func() {
		for _, w := range workers {
			w.close()
		}
	}()
	init := &State{snaps: initSnaps, M: make([]uint64, cfg.N), seq: make([]int, cfg.N)}
	// the document: created through the real API on node 0 of worker 0 to learn its id; when
	// PreCreate is set every node creates it (identical content => identical docID and genesis).
	{
		w := workers[0]
		w.restore(init)
		world.SeedRand("probe")
		data, errs := world.Exec(w.ctx, w.dbs[0], createReq(cfg))
		if len(errs) > 0 {
			return fmt.Errorf("probe create failed: %v", errs)
		}
		rows := world.Rows(data, "create_"+cfg.Coll)
		e.docID = rows[0]["_docID"].(string)
		for _, x := range workers {
			x.docID = e.docID
		}
		w.restore(init)
	}
	for i := range init.snaps {
		init.hashes = append(init.hashes, init.snaps[i].Hash(nil))
	}
	if cfg.PreCreate {
		w := workers[0]
		w.restore(init)
		cur := init
		for i := 0; i < cfg.N; i++ {
			ns := cloneState(cur, fmt.Sprintf("pre-create n%d", i))
			if err := e.localOp(w, cur, ns, i, OpKind{Name: "create", Kind: "create"}); err != nil {
				return fmt.Errorf("pre-create: %v", err)
			}
			ns.snaps[i] = w.stores[i].Snapshot()
			ns.hashes[i] = ns.snaps[i].Hash(nil)
			ns.nops, ns.seq[i] = 0, 0
			ns.parent, ns.depth = nil, 0
			cur = ns
		}
		if len(cur.commits) != 1 {
			return fmt.Errorf("pre-created documents differ between nodes (%d genesis commits)", len(cur.commits))
		}
		init = cur
	}
	e.seen[keyOf(init)] = struct{}{}
	e.Stats.States = 1
	e.Stats.Exhaustive = true
	frontier := []*State{init}
	for len(frontier) > 0 {
		var next []*State
		var nmu sync.Mutex
		var wg sync.WaitGroup
		jobs := make(chan *State, len(frontier))
		for _, s := range frontier {
			jobs <- s
		}
		close(jobs)
		var firstErr error
		for _, w := range workers {
			w := w
			wg.Add(1)
			go func() {
				defer wg.Done()
				defer world.UnseedRand()
				for s := range jobs {
					if !cfg.Deadline.IsZero() && time.Now().After(cfg.Deadline) {
						e.mu.Lock()
						e.Stats.Exhaustive = false
						e.mu.Unlock()
						continue
					}
					out, err := e.expand(w, s)
					if err != nil {
						nmu.Lock()
						if firstErr == nil {
							firstErr = err
						}
						nmu.Unlock()
						return
					}
					nmu.Lock()
					next = append(next, out...)
					nmu.Unlock()
				}
			}()
		}
		wg.Wait()
		if firstErr != nil {
			return firstErr
		}
		// deterministic order of the next level regardless of worker timing
		sort.Slice(next, func(i, j int) bool {
			a, b := keyOf(next[i]), keyOf(next[j])
			return string(a[:]) < string(b[:])
		})
		// drop snapshots of the expanded level (only hashes and paths are kept)
		for _, s := range frontier {
			if s != init {
				s.snaps = nil
			}
		}
		frontier = next
	}
	return nil
}

func (e *Explorer) expand(w *worker, s *State) ([]*State, error) {
	var out []*State
	for _, tr := range e.transitions(s) {
		w.restore(s)
		ns := cloneState(s, tr.label)
		mergeErr, _, err := tr.run(w, s, ns)
		if err == errSkip {
			continue
		}
		if err != nil {
			return nil, fmt.Errorf("%v: %w", append(s.Path(), tr.label), err)
		}
		j := tr.node
		ns.snaps[j] = w.stores[j].Snapshot()
		ns.hashes[j] = ns.snaps[j].Hash(nil)
		ob := w.observe(j, ns.snaps[j])
		viols := e.Check(e, w, s, ns, j, tr.label, mergeErr, ob)
		e.mu.Lock()
		e.Stats.Transitions++
		if strings.HasPrefix(tr.label, "deliver") {
			e.Stats.MergeCalls++
		}
		e.Stats.Outcomes[ob.Canon] = struct{}{}
		if len(viols) > 0 {
			e.Viols = append(e.Viols, viols...)
			e.mu.Unlock()
			continue // a violating state is not expanded further
		}
		if mergeErr != nil {
			e.mu.Unlock()
			continue
		}
		k := keyOf(ns)
		if ns.hashes[j] == s.hashes[j] {
			e.Stats.SelfLoops++
		}
		if _, ok := e.seen[k]; ok {
			e.mu.Unlock()
			continue
		}
		e.seen[k] = struct{}{}
		e.Stats.States++
		if ns.depth > e.Stats.MaxDepth {
			e.Stats.MaxDepth = ns.depth
		}
		if len(e.samples) < 6 && ns.depth >= 3 && len(e.seen)%97 == 0 {
			e.samples = append(e.samples, ns.Path())
		}
		e.mu.Unlock()
		out = append(out, ns)
	}
	return out, nil
}

func (e *Explorer) Samples() [][]string { return e.samples }
func (e *Explorer) DocID() string       { return e.docID }

// PathIndependence looks up / records the observable for a merged set (oracle C01(c)).
func (e *Explorer) PathIndependence(mkey string, canon string, path []string) (tableEnt, bool) {
	e.mu.Lock()
	defer e.mu.Unlock()
	if old, ok := e.table[mkey]; ok {
		return old, old.canon == canon
	}
	e.table[mkey] = tableEnt{canon, path}
	return tableEnt{}, true
}

func (t tableEnt) Canon() string  { return t.canon }
func (t tableEnt) Path() []string { return t.path }

// MergedKey names a merged set by the cids it contains.
func MergedKey(s *State, m uint64) string {
	var cs []string
	for _, c := range s.commits {
		if m&(1<<uint(c.Ord)) != 0 {
			cs = append(cs, c.Cid.String())
		}
	}
	sort.Strings(cs)
	h := sha256.Sum256([]byte(strings.Join(cs, ",")))
	return hex.EncodeToString(h[:12])
}

// BlockIntegrity checks every stored block against its key (oracle C04, first clause) and returns
// the multihashes present.
func BlockIntegrity(sn vkv.Snap) (bad []string, n int) {
	sn.Each(func(k string, v []byte) {
		if !strings.HasPrefix(k, "/db/blocks/") {
			return
		}
		n++
		want, err := dshelp.DsKeyToMultihash(ds.NewKey(strings.TrimPrefix(k, "/db/blocks")))
		if err != nil {
			bad = append(bad, k+": undecodable key")
			return
		}
		dec, err := mh.Decode(want)
		if err != nil {
			bad = append(bad, k+": "+err.Error())
			return
		}
		got, err := mh.Sum(v, dec.Code, dec.Length)
		if err != nil || string(got) != string(want) {
			bad = append(bad, k+": content does not hash to its key")
		}
	})
	return bad, n
}

// Accessors for oracles living outside this file.
func (s *State) Commits() []*Commit { return s.commits }
func (s *State) Merged(j int) uint64 { return s.M[j] }
func (s *State) Snap(j int) vkv.Snap { return s.snaps[j] }
func (s *State) Nops() int           { return s.nops }

// BlockKey is the raw store key of a block; Exchange serves blocks out of a snapshot.
func BlockKey(c cid.Cid) string { return blockKey(c) }

type SnapExchange = snapExchange

func Exchange(sn vkv.Snap) SnapExchange { return snapExchange{sn} }

// DecodeBlock decodes raw block bytes; CidOfBlock computes the cid of raw block bytes.
func DecodeBlock(raw []byte) (*coreblock.Block, error) { return coreblock.GetFromBytes(raw) }

func CidOfBlock(raw []byte) (cid.Cid, error) {
	return coreblock.GetLinkPrototype().Prefix.Sum(raw)
}
