package crdtx

import (
	"context"
	"fmt"
	"math/bits"
	"sort"
	"strings"

	"github.com/ipfs/go-cid"

	"github.com/sourcenetwork/defradb/internal/db"
	"github.com/sourcenetwork/defradb/internal/verifh/vkv"
	"github.com/sourcenetwork/defradb/internal/verifh/world"
)

// Ref is the reference model of one node: a function of the merged set only.
type Ref struct {
	Created  bool
	Deleted  bool
	Counters map[string]int64
	// Allowed register values: value text ("null" for null) of the causally maximal writers.
	Allowed map[string]map[string]bool
	Maximal uint64 // maximal commits of the merged set
}

func Reference(cfg *Config, commits []*Commit, m uint64) Ref {
	r := Ref{Counters: map[string]int64{}, Allowed: map[string]map[string]bool{}}
	for _, f := range cfg.Registers {
		r.Allowed[f] = map[string]bool{}
	}
	var covered uint64 // commits that are a proper ancestor of some merged commit
	for _, c := range commits {
		if m&(1<<uint(c.Ord)) == 0 {
			continue
		}
		covered |= c.Anc &^ (1 << uint(c.Ord))
		switch c.Eff.Kind {
		case "create":
			r.Created = true
			for f, v := range c.Eff.Init {
				if n, ok := v.(int64); ok {
					r.Counters[f] += n
				}
			}
		case "inc":
			r.Counters[c.Eff.Field] += c.Eff.Inc
		case "del":
			r.Deleted = true
		}
	}
	r.Maximal = m &^ covered
	for _, f := range cfg.Registers {
		var writers []*Commit
		for _, c := range commits {
			if m&(1<<uint(c.Ord)) == 0 {
				continue
			}
			if (c.Eff.Kind == "set" || c.Eff.Kind == "null") && c.Eff.Field == f {
				writers = append(writers, c)
			}
			if c.Eff.Kind == "create" {
				if _, ok := c.Eff.Init[f]; ok {
					writers = append(writers, c)
				}
			}
		}
		for _, w := range writers {
			maximal := true
			for _, o := range writers {
				if o != w && o.Anc&(1<<uint(w.Ord)) != 0 {
					maximal = false
				}
			}
			if !maximal {
				continue
			}
			switch w.Eff.Kind {
			case "set":
				r.Allowed[f][fmt.Sprintf("%q", w.Eff.Val)] = true
			case "null":
				r.Allowed[f]["null"] = true
			case "create":
				r.Allowed[f][world.Canon(w.Eff.Init[f])] = true
			}
		}
	}
	return r
}

func keysOf(m map[string]bool) string {
	var ks []string
	for k := range m {
		ks = append(ks, k)
	}
	sort.Strings(ks)
	return strings.Join(ks, "|")
}

// StdCheck evaluates the oracles of C01, C02 and C04 for the node changed by a transition.
func StdCheck(e *Explorer, w *worker, prev, ns *State, j int, label string, mergeErr error, ob Obs) []Viol {
	cfg := &e.Cfg
	var vs []Viol
	path := func() []string { return ns.Path() }
	add := func(prop, fp, detail string) {
		vs = append(vs, Viol{Prop: prop, Fingerprint: prop + ":" + fp, Detail: detail, Path: path()})
	}
	if mergeErr != nil {
		// C01(a): no merge of a well-formed commit whose ancestors are available may fail
		msg := mergeErr.Error()
		add("C01", "merge-error:"+normErr(msg), msg)
		return vs
	}
	if len(ob.RowsErr) > 0 {
		add("C01", "query-error", strings.Join(ob.RowsErr, ";"))
		return vs
	}
	ref := Reference(cfg, ns.commits, ns.M[j])
	// ---- C02: exactly-once, checked after every single transition ----
	var row map[string]any
	for _, r := range ob.Rows {
		if r["_docID"] == e.docID {
			row = r
		}
	}
	switch {
	case ref.Created && row == nil:
		add("C02", "document-missing", fmt.Sprintf("n%d merged a create but the document is not returned", j))
	case !ref.Created && row != nil:
		add("C02", "document-from-nowhere", fmt.Sprintf("n%d returns a document it never merged", j))
	case row != nil:
		del, _ := row["_deleted"].(bool)
		if del != ref.Deleted {
			fp := "deleted-flag"
			if ref.Deleted && !del {
				fp = "resurrected-or-delete-lost"
			}
			add("C02", fp, fmt.Sprintf("n%d _deleted=%v, reference %v", j, del, ref.Deleted))
		}
		// counters keep counting on a deleted document (it stays readable with showDeleted): an increment
		// merged after - or concurrently with - the delete is still part of the sum
		for _, f := range cfg.Counters {
			if !ref.Deleted {
				break
			}
			got, _ := row[f].(int64)
			if got != ref.Counters[f] {
				kind := "counter-lost-on-deleted-document"
				if got > ref.Counters[f] {
					kind = "counter-doubled-on-deleted-document"
				}
				add("C02", kind, fmt.Sprintf("n%d (deleted document) %s=%d, sum of merged increments %d", j, f, got, ref.Counters[f]))
			}
		}
		if !ref.Deleted {
			for _, f := range cfg.Counters {
				got, _ := row[f].(int64)
				if got != ref.Counters[f] {
					kind := "counter-lost"
					if got > ref.Counters[f] {
						kind = "counter-doubled"
					}
					add("C02", kind, fmt.Sprintf("n%d %s=%d, sum of merged increments %d", j, f, got, ref.Counters[f]))
				}
			}
			for _, f := range cfg.Registers {
				got := world.Canon(row[f])
				if !ref.Allowed[f][got] {
					add("C02", "register-not-a-latest-write", fmt.Sprintf("n%d %s=%s, causally latest writes {%s}", j, f, got, keysOf(ref.Allowed[f])))
				}
			}
		}
	}
	if strings.HasPrefix(label, "deliver") && prev.M[j] == ns.M[j] && prev.hashes[j] != ns.hashes[j] {
		// delivering a commit that is already merged must be a no-op on the whole store
		add("C02", "redelivery-not-idempotent", fmt.Sprintf("n%d store changed on redelivery: %s", j, diffSnap(prev.snaps[j], ns.snaps[j])))
	}
	// ---- C04: heads = maximal merged commits, heights, integrity, closure ----
	wantHeads := map[string]uint64{}
	for _, c := range ns.commits {
		if ref.Maximal&(1<<uint(c.Ord)) != 0 {
			wantHeads[c.Cid.String()] = c.Height
		}
	}
	if !sameHeads(ob.Heads, wantHeads) {
		fp := "heads-not-maximal"
		if len(ob.Heads) > len(wantHeads) {
			fp = "stale-head"
		}
		add("C04", fp, fmt.Sprintf("n%d heads %v, maximal merged commits %v", j, ob.Heads, wantHeads))
	}
	for _, c := range ns.commits {
		if ns.M[j]&(1<<uint(c.Ord)) == 0 {
			continue
		}
		var maxp uint64
		for _, p := range ns.commits {
			if c.Par&(1<<uint(p.Ord)) != 0 && p.Height > maxp {
				maxp = p.Height
			}
		}
		if c.Height != maxp+1 {
			add("C04", "height", fmt.Sprintf("commit c%d height %d, parents max %d", c.Ord, c.Height, maxp))
		}
	}
	if bad, _ := BlockIntegrity(ns.snaps[j]); len(bad) > 0 {
		add("C04", "block-key-mismatch", strings.Join(bad, "; "))
	}
	if miss := closure(ns, j); miss != "" {
		add("C04", "dangling-link", miss)
	}
	if class, msg := fieldHeads(ns, j, e.docID); msg != "" {
		add("C04", class, msg)
	}
	// ---- secondary index maintained by local writes and by merges: index-backed reads = listing ----
	if cfg.IndexProbe != "" && row != nil {
		vals := map[string]bool{`"a"`: true, "null": true}
		for _, c := range ns.commits {
			if c.Eff.Kind == "set" && c.Eff.Field == cfg.IndexProbe {
				vals[fmt.Sprintf("%q", c.Eff.Val)] = true
			}
		}
		del, _ := row["_deleted"].(bool)
		cur := world.Canon(row[cfg.IndexProbe])
		for v := range vals {
			data, errs := world.Exec(w.ctx, w.dbs[j], fmt.Sprintf(`query { %s(filter: {%s: {_eq: %s}}) { _docID } }`, cfg.Coll, cfg.IndexProbe, v))
			got := len(world.Rows(data, cfg.Coll)) > 0
			want := !del && cur == v
			if len(errs) > 0 || got != want {
				add("C01", "index-backed-read-differs-from-listing", fmt.Sprintf("n%d %s = %s (deleted %v) but the index-backed filter %s: {_eq: %s} returns %v %v", j, cfg.IndexProbe, cur, del, cfg.IndexProbe, v, got, errs))
			}
		}
	}
	// ---- C01(b,c): the observable is a function of the merged set ----
	if old, same := e.PathIndependence(MergedKey(ns, ns.M[j]), ob.Canon, path()); !same {
		add("C01", "diverged", fmt.Sprintf("same merged set, different observable:\n  now  %s\n  via %v\n  then %s", ob.Canon, old.Path(), old.Canon()))
		vs[len(vs)-1].OtherPath = old.Path()
	}
	// ---- C03 on branching histories: the document at every merged commit ----
	if cfg.TimeTravel {
		for _, c := range ns.commits {
			if ns.M[j]&(1<<uint(c.Ord)) == 0 {
				continue
			}
			if msg := TimeTravelCheck(w.ctx, cfg, w.dbs[j], e.docID, ns.commits, c); msg != "" {
				kind := "time-travel-branching"
				if bits.OnesCount64(c.Par) <= 1 && linear(ns.commits, c) {
					kind = "time-travel-linear"
				}
				if strings.HasPrefix(msg, "HANG") {
					kind = "time-travel-hang"
				}
				add("C03", kind, fmt.Sprintf("n%d at c%d: %s", j, c.Ord, msg))
				break
			}
		}
	}
	return vs
}

func linear(commits []*Commit, c *Commit) bool {
	for _, x := range commits {
		if c.Anc&(1<<uint(x.Ord)) != 0 && bits.OnesCount64(x.Par) > 1 {
			return false
		}
	}
	return true
}

// TimeTravelCheck queries the document at commit c and compares with the reference state of c's
// ancestor closure (each ancestor applied once).
func TimeTravelCheck(ctx context.Context, cfg *Config, d *db.DB, docID string, commits []*Commit, c *Commit) string {
	fields := append(append([]string{}, cfg.Registers...), cfg.Counters...)
	req := fmt.Sprintf(`query { %s(cid: %q, docID: %q) { _docID %s } }`, cfg.Coll, c.Cid.String(), docID, strings.Join(fields, " "))
	data, errs, hung, pan := world.ExecGuard(ctx, d, req)
	if hung {
		return "HANG: the query at that commit does not return"
	}
	if pan != nil {
		return fmt.Sprint("PANIC: ", pan)
	}
	if len(errs) > 0 {
		return "query at commit failed: " + strings.Join(errs, ";")
	}
	ref := Reference(cfg, commits, c.Anc)
	rows := world.Rows(data, cfg.Coll)
	if ref.Deleted {
		// the state of a delete commit: the property does not say whether a deleted document is listed;
		// only the values are compared when it is.
		if len(rows) == 0 {
			return ""
		}
	}
	if len(rows) != 1 {
		return fmt.Sprintf("%d rows", len(rows))
	}
	for _, f := range cfg.Counters {
		got, _ := rows[0][f].(int64)
		if got != ref.Counters[f] {
			return fmt.Sprintf("%s=%d, sum of increments up to that commit %d", f, got, ref.Counters[f])
		}
	}
	for _, f := range cfg.Registers {
		got := world.Canon(rows[0][f])
		if !ref.Allowed[f][got] {
			return fmt.Sprintf("%s=%s, latest writes up to that commit {%s}", f, got, keysOf(ref.Allowed[f]))
		}
	}
	return ""
}

func sameHeads(a, b map[string]uint64) bool {
	if len(a) != len(b) {
		return false
	}
	for k, v := range a {
		if w, ok := b[k]; !ok || w != v {
			return false
		}
	}
	return true
}

func normErr(s string) string {
	// strip identifiers so that one defect is one class
	f := strings.Fields(s)
	var out []string
	for _, w := range f {
		if len(w) > 30 || strings.HasPrefix(w, "bae") || strings.HasPrefix(w, "bafy") {
			continue
		}
		out = append(out, w)
	}
	return strings.Join(out, " ")
}

func diffSnap(a, b vkv.Snap) string {
	am := map[string]string{}
	a.Each(func(k string, v []byte) { am[k] = string(v) })
	var d []string
	b.Each(func(k string, v []byte) {
		if o, ok := am[k]; !ok {
			d = append(d, "+"+k)
		} else if o != string(v) {
			d = append(d, "~"+k)
		}
		delete(am, k)
	})
	for k := range am {
		d = append(d, "-"+k)
	}
	sort.Strings(d)
	if len(d) > 6 {
		d = append(d[:6], "...")
	}
	return strings.Join(d, " ")
}

// closure checks that every head and every link of every merged commit resolves in j's blockstore.
func closure(ns *State, j int) string {
	sn := ns.snaps[j]
	seen := map[string]bool{}
	var walk func(c cid.Cid) string
	walk = func(c cid.Cid) string {
		if seen[c.String()] {
			return ""
		}
		seen[c.String()] = true
		blk, err := loadBlock(sn, c)
		if err != nil {
			return fmt.Sprintf("n%d: %v", j, err)
		}
		for _, l := range blk.Heads {
			if m := walk(l.Cid); m != "" {
				return m
			}
		}
		for _, l := range blk.Links {
			if m := walk(l.Cid); m != "" {
				return m
			}
		}
		return ""
	}
	for _, c := range ns.commits {
		if ns.M[j]&(1<<uint(c.Ord)) != 0 {
			if m := walk(c.Cid); m != "" {
				return m
			}
		}
	}
	return ""
}

// fieldHeads checks the head sets recorded for the fields of the document: they must be exactly the
// field-level commits linked from merged document-level commits that no other such commit names as
// parent. Purely structural (blocks and head store of node j).
func fieldHeads(ns *State, j int, docID string) (string, string) {
	sn := ns.snaps[j]
	merged := map[string]uint64{} // field-level commits linked from merged composites -> height
	parents := map[string]bool{}
	linkedFrom := map[string]int{} // number of merged composites that link the field-level commit
	for _, c := range ns.commits {
		if ns.M[j]&(1<<uint(c.Ord)) == 0 {
			continue
		}
		blk, err := loadBlock(sn, c.Cid)
		if err != nil {
			return "", "" // reported as dangling-link
		}
		for _, l := range blk.Links {
			fb, err := loadBlock(sn, l.Cid)
			if err != nil {
				return "", ""
			}
			merged[l.Cid.String()] = fb.Delta.GetPriority()
			linkedFrom[l.Cid.String()]++
			for _, h := range fb.Heads {
				parents[h.Cid.String()] = true
			}
		}
	}
	want := map[string]uint64{}
	for c, h := range merged {
		if !parents[c] {
			want[c] = h
		}
	}
	got := map[string]uint64{}
	pre := "/db/heads/d/" + docID + "/"
	sn.Each(func(k string, v []byte) {
		if !strings.HasPrefix(k, pre) || strings.HasPrefix(k, pre+"C/") {
			return
		}
		rest := k[len(pre):]
		if i := strings.LastIndex(rest, "/"); i >= 0 {
			h, _ := uvarint(v)
			got[rest[i+1:]] = h
		}
	})
	if !sameHeads(got, want) {
		// One shape is a known defect: two nodes wrote the same value on the same field state, which
		// yields one and the same field-level block under two document-level commits; merging the second
		// re-applies the block and records it as a head again although a merged commit names it as parent.
		class := "field-heads-not-maximal:same-field-commit-written-by-two-nodes"
		for c, h := range got {
			if wh, ok := want[c]; ok && wh == h {
				continue
			}
			if linkedFrom[c] < 2 {
				class = "field-heads-not-maximal"
			}
		}
		for c := range want {
			if _, ok := got[c]; !ok {
				class = "field-heads-not-maximal"
			}
		}
		return class, fmt.Sprintf("n%d field-level heads recorded %v, field-level commits that no merged commit names as parent %v", j, got, want)
	}
	return "", ""
}

// Replay re-executes a path sequentially on fresh nodes (vkv or badger) and returns the violations
// the oracles report along it, plus the final observables of all nodes.
func Replay(cfg Config, path []string, badger bool) ([]Viol, []string, error) {
	return ReplayAfter(cfg, nil, path, badger)
}

// ReplayAfter replays path after the path `first` (if any) has filled the path-independence table:
// a "same merged set, different observable" violation is a relation between two paths and can only
// be reproduced with both.
func ReplayAfter(cfg Config, first, path []string, badger bool) ([]Viol, []string, error) {
	table := map[string]tableEnt{}
	if len(first) > 0 {
		if _, _, err := replayWith(cfg, first, badger, table); err != nil {
			return nil, nil, err
		}
	}
	return replayWith(cfg, path, badger, table)
}

func replayWith(cfg Config, path []string, badger bool, table map[string]tableEnt) ([]Viol, []string, error) {
	e := &Explorer{Cfg: cfg, Check: StdCheck}
	e.seen = map[[32]byte]struct{}{}
	e.table = table
	e.Stats.Outcomes = map[string]struct{}{}
	w, snaps, err := newWorker(&e.Cfg, badger)
	if err != nil {
		return nil, nil, err
	}
	defer w.close()
	defer world.UnseedRand()
	cur := &State{snaps: snaps, M: make([]uint64, cfg.N), seq: make([]int, cfg.N)}
	for i := range snaps {
		cur.hashes = append(cur.hashes, snaps[i].Hash(nil))
	}
	// learn the docID from the document bytes the same way Run does, on a scratch vkv node
	{
		sw, ssn, err := newWorker(&e.Cfg, false)
		if err != nil {
			return nil, nil, err
		}
		world.SeedRand("probe")
		data, errs := world.Exec(sw.ctx, sw.dbs[0], createReq(&e.Cfg))
		_ = ssn
		if len(errs) > 0 {
			sw.close()
			return nil, nil, fmt.Errorf("probe create failed: %v", errs)
		}
		e.docID = world.Rows(data, "create_"+cfg.Coll)[0]["_docID"].(string)
		w.docID = e.docID
		sw.close()
	}
	if cfg.PreCreate {
		for i := 0; i < cfg.N; i++ {
			ns := cloneState(cur, "pre-create")
			if err := e.localOp(w, cur, ns, i, OpKind{Name: "create", Kind: "create"}); err != nil {
				return nil, nil, err
			}
			ns.snaps[i] = w.stores[i].Snapshot()
			ns.hashes[i] = ns.snaps[i].Hash(nil)
			ns.nops, ns.seq[i] = 0, 0
			ns.parent, ns.depth = nil, 0
			cur = ns
		}
	}
	var all []Viol
	for _, label := range path {
		var tr *transition
		for _, t := range e.transitions(cur) {
			if t.label == label {
				t := t
				tr = &t
				break
			}
		}
		if tr == nil {
			return all, nil, fmt.Errorf("replay divergence: transition %q not enabled", label)
		}
		ns := cloneState(cur, label)
		mergeErr, _, err := tr.run(w, cur, ns)
		if err != nil {
			return all, nil, fmt.Errorf("replay: %q: %v", label, err)
		}
		j := tr.node
		ns.snaps[j] = w.stores[j].Snapshot()
		ns.hashes[j] = ns.snaps[j].Hash(nil)
		ob := w.observe(j, ns.snaps[j])
		all = append(all, StdCheck(e, w, cur, ns, j, label, mergeErr, ob)...)
		cur = ns
	}
	var finals []string
	for i := 0; i < cfg.N; i++ {
		finals = append(finals, w.observe(i, cur.snaps[i]).Canon)
	}
	return all, finals, nil
}
