// Package vsched: throw-away prototype of the cooperative scheduler (DESIGN.md E3).
package vsched

import (
	"bytes"
	"iter"
	"reflect"
	"runtime"
	"strconv"
	"sync"
)

type thread struct {
	id      int
	resume  chan struct{}
	done    bool
	blocked func() bool
	main    bool
}

type Point struct {
	N          int  // number of enabled threads
	CurEnabled bool // running thread was among them (switching away = preemption)
	Chosen     int
}

type run struct {
	mu       sync.Mutex
	threads  []*thread
	cur      *thread
	byGoid   map[int64]*thread
	prefix   []int
	Points   []Point
	finished chan struct{}
	Deadlock bool
	aborting bool
	closed   map[uintptr]bool
	Panic    any
	// branchFrom: the explorer takes alternatives only at points from this index on (a deterministic
	// set-up prefix is executed on the default schedule and not branched over)
	branchFrom int
	branchTo   int // 0 = to the end
}

// BranchUntilHere ends the window opened by BranchFromHere.
func BranchUntilHere() {
	r, t := cur()
	if t != nil {
		r.branchTo = len(r.Points)
	}
}

// BranchFromHere marks the current point: alternatives are explored only from here on.
func BranchFromHere() {
	r, t := cur()
	if t != nil {
		r.branchFrom = len(r.Points)
	}
}

var (
	gmu sync.Mutex
	R   *run
)

type abortT struct{}

func goid() int64 {
	var buf [64]byte
	b := buf[:runtime.Stack(buf[:], false)]
	b = b[len("goroutine "):]
	b = b[:bytes.IndexByte(b, ' ')]
	n, _ := strconv.ParseInt(string(b), 10, 64)
	return n
}

func cur() (*run, *thread) {
	gmu.Lock()
	r := R
	gmu.Unlock()
	if r == nil {
		return nil, nil
	}
	r.mu.Lock()
	t := r.byGoid[goid()]
	r.mu.Unlock()
	return r, t
}

// Controlled reports whether the calling goroutine is under the scheduler.
func Controlled() bool { _, t := cur(); return t != nil }

func (r *run) enabled(t *thread) []*thread {
	var e []*thread
	ok := func(x *thread) bool { return !x.done && (x.blocked == nil || x.blocked()) }
	if t != nil && ok(t) {
		e = append(e, t)
	}
	for _, x := range r.threads {
		if x != t && ok(x) {
			e = append(e, x)
		}
	}
	return e
}

// schedule picks the next thread; called by the running thread t (which may be done/blocked).
func (r *run) schedule(t *thread) {
	e := r.enabled(t)
	if len(e) == 0 {
		// quiescence or deadlock
		for _, x := range r.threads {
			if x.main && !x.done {
				r.Deadlock = true
			}
		}
		r.finish()
		if !t.done {
			panic(abortT{})
		}
		return
	}
	idx := 0
	step := len(r.Points)
	if step < len(r.prefix) {
		idx = r.prefix[step]
		if idx >= len(e) {
			panic("vsched: replay divergence")
		}
	}
	// once all main threads are done only let daemons drain deterministically
	r.Points = append(r.Points, Point{N: len(e), CurEnabled: len(e) > 0 && e[0] == t, Chosen: idx})
	nx := e[idx]
	if nx == t {
		return
	}
	r.cur = nx
	nx.blocked = nil
	nx.resume <- struct{}{}
	if !t.done {
		<-t.resume
		if r.aborting {
			panic(abortT{})
		}
	}
}

func (r *run) finish() {
	if r.aborting {
		return
	}
	r.aborting = true
	for _, x := range r.threads {
		if !x.done && x != r.cur {
			select {
			case x.resume <- struct{}{}:
			default:
			}
		}
	}
	close(r.finished)
}

// Yield is a scheduling point.
func Yield() {
	r, t := cur()
	if t == nil {
		return
	}
	r.schedule(t)
}

// Block parks the calling thread until pred() holds.
func Block(pred func() bool) {
	r, t := cur()
	if t == nil {
		panic("Block from uncontrolled goroutine")
	}
	t.blocked = pred
	r.schedule(t)
	t.blocked = nil
}

func (r *run) spawn(f func(), main bool) *thread {
	t := &thread{id: len(r.threads), resume: make(chan struct{}, 1), main: main}
	r.threads = append(r.threads, t)
	started := make(chan struct{})
	go func() {
		r.mu.Lock()
		r.byGoid[goid()] = t
		r.mu.Unlock()
		close(started)
		<-t.resume
		defer func() {
			if p := recover(); p != nil {
				if _, ok := p.(abortT); !ok {
					r.Panic = p
					t.done = true
					r.finish()
					return
				}
				return
			}
		}()
		if r.aborting {
			return
		}
		f()
		t.done = true
		r.schedule(t)
	}()
	<-started
	return t
}

// Go replaces the go statement in rewritten code.
func Go(f func()) {
	r, t := cur()
	if t == nil {
		go f()
		return
	}
	r.spawn(f, false)
	r.schedule(t)
}
func Go1[A any](f func(A), a A)             { Go(func() { f(a) }) }
func Go2[A, B any](f func(A, B), a A, b B)  { Go(func() { f(a, b) }) }

// Spawn starts a driver (main) thread from the driver body.
func Spawn(f func()) {
	r, t := cur()
	r.spawn(f, true)
	r.schedule(t)
}

type Result struct {
	Points     []Point
	Deadlock   bool
	Panic      any
	BranchFrom int
	BranchTo   int
}

// Setup, if set, runs before every execution outside the scheduler (goroutines it starts are free-running).
var Setup func()

func runOnce(prefix []int, body func()) Result {
	if Setup != nil {
		Setup()
	}
	r := &run{byGoid: map[int64]*thread{}, prefix: prefix, finished: make(chan struct{}), closed: map[uintptr]bool{}}
	gmu.Lock()
	R = r
	gmu.Unlock()
	t := r.spawn(body, true)
	r.cur = t
	t.resume <- struct{}{}
	<-r.finished
	gmu.Lock()
	R = nil
	gmu.Unlock()
	return Result{r.Points, r.Deadlock, r.Panic, r.branchFrom, r.branchTo}
}

type Stats struct {
	Executions, MaxPoints int
	Truncated             bool // the budget (Stop) ended the enumeration early
}

// Stop, if set, is polled between executions; returning true ends the enumeration (Stats.Truncated).
var Stop func() bool

// Explore enumerates all schedules of body with at most bound preemptions.
func Explore(bound int, body func(), check func(Result, []int)) Stats {
	var st Stats
	var rec func(prefix []int)
	rec = func(prefix []int) {
		if st.Truncated || (Stop != nil && Stop()) {
			st.Truncated = true
			return
		}
		x := runOnce(prefix, body)
		st.Executions++
		if len(x.Points) > st.MaxPoints {
			st.MaxPoints = len(x.Points)
		}
		choices := make([]int, len(x.Points))
		for i, p := range x.Points {
			choices[i] = p.Chosen
		}
		check(x, choices)
		pre := 0
		for i := 0; i < len(x.Points); i++ {
			p := x.Points[i]
			if i >= len(prefix) && i >= x.BranchFrom && (x.BranchTo == 0 || i < x.BranchTo) {
				for alt := 1; alt < p.N; alt++ {
					cost := pre
					if p.CurEnabled {
						cost++
					}
					if cost > bound {
						continue
					}
					rec(append(append([]int{}, choices[:i]...), alt))
				}
			}
			if p.CurEnabled && p.Chosen != 0 {
				pre++
			}
		}
	}
	rec(nil)
	return st
}

// ---- channels ----

func chptr(ch any) uintptr { return reflect.ValueOf(ch).Pointer() }

func isClosed(r *run, ch any) bool { return r.closed[chptr(ch)] }

func MakeChan[T any](n int) chan T { return make(chan T, n) }

func Send[T any](ch chan<- T, v T) {
	r, t := cur()
	if t == nil {
		ch <- v
		return
	}
	r.schedule(t)
	for {
		select {
		case ch <- v:
			return
		default:
		}
		Block(func() bool { return len(ch) < cap(ch) || isClosed(r, ch) })
	}
}

func Recv2[T any](ch <-chan T) (T, bool) {
	r, t := cur()
	if t == nil {
		v, ok := <-ch
		return v, ok
	}
	r.schedule(t)
	for {
		select {
		case v, ok := <-ch:
			return v, ok
		default:
		}
		Block(func() bool { return len(ch) > 0 || isClosed(r, ch) })
	}
}

func Recv[T any](ch <-chan T) T { v, _ := Recv2(ch); return v }

func Close[T any](ch chan T) {
	r, t := cur()
	if t != nil {
		r.closed[chptr(ch)] = true
	}
	close(ch)
	if t != nil {
		r.schedule(t)
	}
}

func RangeChan[T any](ch <-chan T) iter.Seq[T] {
	return func(yield func(T) bool) {
		for {
			v, ok := Recv2(ch)
			if !ok || !yield(v) {
				return
			}
		}
	}
}

// SendTo fixes T from the channel alone so that the value may be any type assignable to T.
func SendTo[T any](ch chan<- T) func(T) { return func(v T) { Send(ch, v) } }

// ---- select ----

type Case interface {
	ready(r *run) bool
	fire() bool
	rcase() reflect.SelectCase       // for goroutines outside the scheduler
	took(v reflect.Value, ok bool)
}

type RecvC[T any] struct {
	ch  <-chan T
	v   T
	ok  bool
	ctx interface{ Err() error }
}

func RecvCase[T any](ch <-chan T) *RecvC[T] { return &RecvC[T]{ch: ch} }

// DoneCase is a receive from ctx.Done(): a foreign close-only channel whose readiness is ctx.Err()!=nil.
func DoneCase(ctx interface {
	Err() error
	Done() <-chan struct{}
}) *RecvC[struct{}] {
	return &RecvC[struct{}]{ch: ctx.Done(), ctx: ctx}
}
func (c *RecvC[T]) ready(r *run) bool {
	if c.ctx != nil {
		return c.ctx.Err() != nil
	}
	return len(c.ch) > 0 || isClosed(r, c.ch)
}
func (c *RecvC[T]) fire() bool {
	select {
	case v, ok := <-c.ch:
		c.v, c.ok = v, ok
		return true
	default:
		return false
	}
}
func (c *RecvC[T]) rcase() reflect.SelectCase {
	return reflect.SelectCase{Dir: reflect.SelectRecv, Chan: reflect.ValueOf(c.ch)}
}
func (c *RecvC[T]) took(v reflect.Value, ok bool) {
	c.ok = ok
	if ok {
		c.v, _ = v.Interface().(T)
	}
}
func (c *RecvC[T]) Get() (T, bool) { return c.v, c.ok }
func (c *RecvC[T]) Val() T         { return c.v }

type SendC[T any] struct {
	ch chan<- T
	v  T
}

func SendCaseTo[T any](ch chan<- T) func(T) *SendC[T] {
	return func(v T) *SendC[T] { return &SendC[T]{ch, v} }
}
func (c *SendC[T]) ready(r *run) bool { return len(c.ch) < cap(c.ch) }
func (c *SendC[T]) rcase() reflect.SelectCase {
	return reflect.SelectCase{Dir: reflect.SelectSend, Chan: reflect.ValueOf(c.ch), Send: reflect.ValueOf(&c.v).Elem()}
}
func (c *SendC[T]) took(reflect.Value, bool) {}
func (c *SendC[T]) fire() bool {
	select {
	case c.ch <- c.v:
		return true
	default:
		return false
	}
}

// Select blocks until one case can proceed and returns its index (first ready case; the choice
// among several ready cases becomes an explorer choice in the real implementation).
func Select(cases ...Case) int {
	r, t := cur()
	if t == nil {
		// a goroutine outside the scheduler (infrastructure started before the run): a real select
		rc := make([]reflect.SelectCase, len(cases))
		for i, c := range cases {
			rc[i] = c.rcase()
		}
		i, v, ok := reflect.Select(rc)
		cases[i].took(v, ok)
		return i
	}
	r.schedule(t)
	for {
		for i, c := range cases {
			if c.ready(r) && c.fire() {
				return i
			}
		}
		Block(func() bool {
			for _, c := range cases {
				if c.ready(r) {
					return true
				}
			}
			return false
		})
	}
}

// Quiesce parks the caller until no other thread is enabled (deterministic "let async work settle").
func Quiesce() {
	r, t := cur()
	if t == nil {
		return
	}
	for {
		others := false
		for _, x := range r.threads {
			if x != t && !x.done && (x.blocked == nil || x.blocked()) {
				others = true
			}
		}
		if !others {
			return
		}
		Block(func() bool {
			for _, x := range r.threads {
				if x != t && !x.done && (x.blocked == nil || x.blocked()) {
					return false
				}
			}
			return true
		})
	}
}

// Run executes body once under the scheduler with the default choice (0) at every point: the
// canonical schedule (keep running the current thread; when it blocks, the lowest enabled id).
func Run(body func()) Result { return runOnce(nil, body) }

// Replay executes body once, following the recorded choices (a divergence panics).
func Replay(choices []int, body func()) Result { return runOnce(choices, body) }
