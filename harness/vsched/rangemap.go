package vsched

import (
	"fmt"
	"iter"
	"sort"
	"sync"
)

// MapOrderChooser decides the iteration order of a rewritten map range: given n keys (in sorted
// order) it returns a permutation of 0..n-1. nil = sorted order (the default environment answer).
// Choosers are per goroutine so that parallel workers do not interfere.
var (
	moMu       sync.Mutex
	moChoosers = map[int64]func(site string, n int) []int{}
)

// SetMapOrder installs (or, with nil, removes) the chooser of the calling goroutine.
func SetMapOrder(f func(site string, n int) []int) {
	moMu.Lock()
	defer moMu.Unlock()
	if f == nil {
		delete(moChoosers, goid())
	} else {
		moChoosers[goid()] = f
	}
}

// RangeMap replaces `range m` in rewritten repository code. Keys are visited in the order picked by
// the chooser; before each yield the key is looked up again (present? current value), which is one
// legal behaviour of a native range under mutation by the loop body.
func RangeMap[K comparable, V any](m map[K]V) iter.Seq2[K, V] {
	return func(yield func(K, V) bool) {
		type ent struct {
			k K
			s string
		}
		es := make([]ent, 0, len(m))
		for k := range m {
			es = append(es, ent{k, fmt.Sprint(k)})
		}
		sort.Slice(es, func(i, j int) bool { return es[i].s < es[j].s })
		order := make([]int, len(es))
		for i := range order {
			order[i] = i
		}
		if len(es) > 1 {
			moMu.Lock()
			f := moChoosers[goid()]
			moMu.Unlock()
			if f != nil {
				order = f(fmt.Sprintf("%T", m), len(es))
			}
		}
		for _, i := range order {
			k := es[i].k
			v, ok := m[k]
			if !ok {
				continue
			}
			if !yield(k, v) {
				return
			}
		}
	}
}
