// Command vcheck-sched (built with the scheduler rewrite of the files named in tools/rewrite) runs one property check: vcheck <property-id> [replay <file>]
package main

import (
	"fmt"
	"os"

	"github.com/sourcenetwork/defradb/internal/verifh/checks"
)

func main() {
	if len(os.Args) < 2 {
		fmt.Fprintln(os.Stderr, "usage: vcheck <property-id>|list [args]")
		os.Exit(2)
	}
	if os.Args[1] == "list" {
		for _, n := range checks.Names() {
			fmt.Println(n)
		}
		return
	}
	f := checks.Get(os.Args[1])
	if f == nil {
		fmt.Fprintf(os.Stderr, "HARNESS-ERROR: unknown check %q\n", os.Args[1])
		os.Exit(2)
	}
	os.Exit(f(os.Args[2:]))
}
