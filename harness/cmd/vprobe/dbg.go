package main

import (
	"context"
	"fmt"

	"github.com/sourcenetwork/immutable"

	"github.com/sourcenetwork/defradb/client"
	"github.com/sourcenetwork/defradb/internal/verifh/vkv"
	"github.com/sourcenetwork/defradb/internal/verifh/world"
)

func dbgDocBytes() {
	ctx := context.Background()
	d, _ := world.NewDB(ctx, vkv.NewStore())
	d.AddSchema(ctx, `type K { ai: [Int] }`)
	col, _ := d.GetCollectionByName(ctx, "K")
	d1, err := client.NewDocFromJSON([]byte(`{"ai": [1,2,3]}`), col.Definition())
	b1, _ := d1.Bytes()
	fmt.Printf("json  %v %x %s\n", err, b1, d1.ID())
	for _, v := range []any{[]int64{1, 2, 3}, []any{int64(1), int64(2), int64(3)}, []immutable.Option[int64]{immutable.Some[int64](1), immutable.Some[int64](2), immutable.Some[int64](3)}, []int{1, 2, 3}} {
		d2, err := client.NewDocFromMap(map[string]any{"ai": v}, col.Definition())
		if err != nil {
			fmt.Printf("map %T err %v\n", v, err)
			continue
		}
		b2, _ := d2.Bytes()
		fmt.Printf("map %T %x %s\n", v, b2, d2.ID())
	}
}
