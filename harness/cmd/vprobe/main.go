// Command vprobe runs ad-hoc requests against a fresh database (development aid).
// usage: vprobe '<sdl>' '<request>'...
package main

import (
	"context"
	"fmt"
	"os"

	"github.com/sourcenetwork/defradb/internal/verifh/vkv"
	"github.com/sourcenetwork/defradb/internal/verifh/world"
)

func main() {
	ctx := context.Background()
	st := vkv.NewStore()
	d, err := world.NewDB(ctx, st)
	if err != nil {
		panic(err)
	}
	if _, err := d.AddSchema(ctx, os.Args[1]); err != nil {
		fmt.Println("schema error:", err)
		return
	}
	if os.Getenv("OPS") != "" {
		st.SetHook(func(o *vkv.Op) error { fmt.Println("   op", o.Kind, o.Key); return nil })
	}
	for _, q := range os.Args[2:] {
		data, errs, hung, pan := world.ExecGuard(ctx, d, q)
		fmt.Printf("%s\n  => %s  errs=%v hung=%v panic=%v  (%T)\n", q, world.Canon(data), errs, hung, pan, data)
		if len(errs) > 0 && os.Getenv("STACK") != "" {
			for _, e := range d.ExecRequest(ctx, q).GQL.Errors {
				fmt.Printf("%+v\n", e)
			}
		}
		if m, ok := data.(map[string]any); ok {
			for k, v := range m {
				fmt.Printf("     %s: %T\n", k, v)
			}
		}
	}
}
