// Command vprobe runs ad-hoc requests against a fresh database (development aid).
// usage: vprobe '<sdl>' '<request>'...
package main

import (
	"context"
	"fmt"
	"github.com/sourcenetwork/defradb/client"
	"os"
	"strings"

	"github.com/sourcenetwork/defradb/internal/verifh/vkv"
	"github.com/sourcenetwork/defradb/internal/verifh/world"
)

func main() {
	if len(os.Args) > 1 && os.Args[1] == "dbg" {
		dbgDocBytes()
		return
	}
	ctx := context.Background()
	st := vkv.NewStore()
	d, err := world.NewDB(ctx, st)
	if err != nil {
		panic(err)
	}
	for _, part := range strings.Split(os.Args[1], "|||") {
		cols, err := d.AddSchema(ctx, part)
		if err != nil {
			fmt.Println("schema error:", err)
			return
		}
		if os.Getenv("IDS") != "" {
			for _, c := range cols {
				fmt.Printf("  %s version=%s collection=%s\n", c.Name, c.VersionID, c.CollectionID)
			}
		}
	}
	defer func() {
		if os.Getenv("KEYS") != "" {
			st.Snapshot().Each(func(k string, v []byte) {
				if strings.HasPrefix(k, os.Getenv("KEYS")) {
					fmt.Printf("  %q = %x\n", k, v)
				}
			})
		}
	}()
	if os.Getenv("OPS") != "" {
		st.SetHook(func(o *vkv.Op) error { fmt.Println("   op", o.Kind, o.Key); return nil })
	}
	if f := os.Getenv("IXCREATE"); f != "" {
		c, _ := d.GetCollectionByName(ctx, "T")
		desc, err := c.CreateIndex(ctx, client.IndexCreateRequest{Fields: []client.IndexedFieldDescription{{Name: f}}})
		fmt.Printf("created %+v %v\n", desc, err)
	}
	if os.Getenv("IX") != "" {
		cols, _ := d.GetCollections(ctx, client.CollectionFetchOptions{})
		for _, c := range cols {
			ix, err := c.GetIndexes(ctx)
			fmt.Printf("collection %s indexes %+v %v\n", c.Name(), ix, err)
		}
	}
	for _, q := range os.Args[2:] {
		data, errs, hung, pan := world.ExecGuard(ctx, d, q)
		fmt.Printf("%s\n  => %s  errs=%v hung=%v panic=%v  (%T)\n", q, world.Canon(data), errs, hung, pan, data)
		if len(errs) > 0 && os.Getenv("STACK") != "" {
			for _, e := range d.ExecRequest(ctx, q).GQL.Errors {
				fmt.Printf("%+v\n", e)
			}
		}
		if m, ok := data.(map[string]any); ok {
			for k, v := range m {
				fmt.Printf("     %s: %T\n", k, v)
			}
		}
	}
}
