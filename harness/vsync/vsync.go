// Package vsync: prototype drop-in for "sync" with scheduling points.
package vsync

import (
	"sync"

	"github.com/sourcenetwork/defradb/internal/verifh/vsched"
)

type (
	Once      = sync.Once
	Map       = sync.Map
	Pool      = sync.Pool
	Locker    = sync.Locker
)

type Mutex struct{ mu sync.Mutex }

func (m *Mutex) Lock() {
	if !vsched.Controlled() {
		m.mu.Lock()
		return
	}
	vsched.Yield()
	for !m.mu.TryLock() {
		vsched.Block(func() bool {
			if m.mu.TryLock() {
				m.mu.Unlock()
				return true
			}
			return false
		})
	}
}
func (m *Mutex) Unlock()       { m.mu.Unlock(); vsched.Yield() }
func (m *Mutex) TryLock() bool { return m.mu.TryLock() }

type RWMutex struct{ mu sync.RWMutex }

func (m *RWMutex) Lock() {
	if !vsched.Controlled() {
		m.mu.Lock()
		return
	}
	vsched.Yield()
	for !m.mu.TryLock() {
		vsched.Block(func() bool {
			if m.mu.TryLock() {
				m.mu.Unlock()
				return true
			}
			return false
		})
	}
}
func (m *RWMutex) Unlock() { m.mu.Unlock(); vsched.Yield() }
func (m *RWMutex) RLock() {
	if !vsched.Controlled() {
		m.mu.RLock()
		return
	}
	vsched.Yield()
	for !m.mu.TryRLock() {
		vsched.Block(func() bool {
			if m.mu.TryRLock() {
				m.mu.RUnlock()
				return true
			}
			return false
		})
	}
}
func (m *RWMutex) RUnlock() { m.mu.RUnlock(); vsched.Yield() }


// WaitGroup: Wait from a controlled goroutine parks in the scheduler instead of blocking the runtime.
type WaitGroup struct {
	mu sync.Mutex
	n  int
	wg sync.WaitGroup
}

func (w *WaitGroup) Add(d int) {
	w.mu.Lock()
	w.n += d
	w.mu.Unlock()
	w.wg.Add(d)
}
func (w *WaitGroup) Done() { w.Add(-1); vsched.Yield() }
func (w *WaitGroup) Wait() {
	if !vsched.Controlled() {
		w.wg.Wait()
		return
	}
	vsched.Yield()
	zero := func() bool { w.mu.Lock(); defer w.mu.Unlock(); return w.n == 0 }
	for !zero() {
		vsched.Block(zero)
	}
}
