// Package faultx is engine E2 (DESIGN.md §3): for every prior state of a small generator, every
// operation of an alphabet and every storage call that operation issues, the operation is re-run
// with that one call answering a fault; the outcome must be all-or-nothing.
package faultx

import (
	"runtime/debug"
	"context"
	"errors"
	"fmt"
	"sort"
	"strings"
	"sync"

	"github.com/sourcenetwork/corekv"

	"github.com/sourcenetwork/defradb/event"
	"github.com/sourcenetwork/defradb/internal/db"
	"github.com/sourcenetwork/defradb/internal/verifh/vkv"
	"github.com/sourcenetwork/defradb/internal/verifh/world"
)

// Env is what an operation sees.
type Env struct {
	Ctx   context.Context
	DB    *db.DB
	Store *vkv.Store
	Aux   map[string]any // scenario data (remote snapshots, cids, doc ids)
}

type Op struct {
	Name string
	Run  func(e *Env) error
}

type Scenario struct {
	Name string
	// Reopen: the alphabet changes in-memory state (schema, indexes): every run gets a fresh DB object
	// opened on the restored store instead of restoring the store under a live object.
	Reopen bool
	// Build creates the initial database content on a fresh store.
	Build func(e *Env) error
	Ops   []Op
	// Dump renders everything the property talks about (documents incl. deleted, commits, heads,
	// index-backed results, descriptions, probe requests).
	Dump func(e *Env) string
	// Depth of the prior-state generator (operations applied fault-free before the faulted one).
	Depth int
}

type FaultPoint struct {
	Kind, Key string
	Occ       int
	Fault     string // io | conflict
}

type Viol struct {
	Fingerprint string
	Detail      string
	Replay      map[string]any
}

type Stats struct {
	PriorStates, Runs, FaultPoints, Unreached int
	OutcomeErrUnchanged, OutcomeOkComplete   int
	PerOp                                    map[string]int
}

const markerName = event.Name("verif-marker")

// drain collects the update events published so far (FIFO barrier through a marker message).
func drain(d *db.DB, sub event.Subscription) []string {
	d.Events().Publish(event.NewMessage(markerName, nil))
	var out []string
	for m := range sub.Message() {
		if m.Name == markerName {
			return out
		}
		if u, ok := m.Data.(event.Update); ok {
			out = append(out, fmt.Sprintf("%s %s %s", u.DocID, u.Cid, u.CollectionID))
		}
	}
	return out
}

type runResult struct {
	err     error
	post    vkv.Snap
	dump    string
	events  []string
	log     []vkv.Op
	hit     bool
	panicky any
}

func isRead(kind string) bool {
	switch kind {
	case "get", "has", "iter", "next", "value", "seek":
		return true
	}
	return false
}

type runner struct {
	sc   *Scenario
	env  *Env
	live *db.DB
	sub  event.Subscription
}

func (r *runner) open(sn vkv.Snap) error {
	r.env.Store.SetHook(nil)
	r.env.Store.Restore(sn)
	if r.sc.Reopen || r.live == nil {
		if r.live != nil {
			// closing also closes the store; Restore re-opens it
			r.live.Close()
			r.env.Store.Restore(sn)
		}
		d, err := world.NewDB(r.env.Ctx, r.env.Store)
		if err != nil {
			return err
		}
		r.live = d
		sub, err := d.Events().Subscribe(event.UpdateName, markerName)
		if err != nil {
			return err
		}
		r.sub = sub
	}
	r.env.DB = r.live
	return nil
}

// run executes op from state sn with an optional fault.
func (r *runner) run(sn vkv.Snap, op Op, fp *FaultPoint, seed string) (res runResult, err error) {
	if err := r.open(sn); err != nil {
		return res, err
	}
	drain(r.live, r.sub) // nothing pending from earlier runs
	occ := map[string]int{}
	var mu sync.Mutex
	r.env.Store.ResetOps()
	r.env.Store.SetHook(func(o *vkv.Op) error {
		mu.Lock()
		defer mu.Unlock()
		if o.Kind == "newtxn" || o.Kind == "discard" {
			return nil
		}
		k := o.Kind + " " + o.Key
		occ[k]++
		res.log = append(res.log, *o)
		if fp != nil && !res.hit && o.Kind == fp.Kind && o.Key == fp.Key && occ[k] == fp.Occ {
			res.hit = true
			if fp.Fault == "conflict" {
				return corekv.ErrTxnConflict
			}
			return vkv.ErrInjected
		}
		return nil
	})
	world.SeedRand("faultx", seed)
	func() {
		defer func() {
			if p := recover(); p != nil {
				res.panicky = fmt.Sprintf("%v\n%s", p, trimStack(debug.Stack()))
			}
		}()
		res.err = op.Run(r.env)
	}()
	r.env.Store.SetHook(nil)
	res.post = r.env.Store.Snapshot()
	res.events = drain(r.live, r.sub)
	res.dump = r.sc.Dump(r.env)
	return res, nil
}

func hashOf(sn vkv.Snap) [32]byte { return sn.Hash(nil) }

// Explore runs the whole scenario and returns violations (one representative per class and op).
func Explore(sc *Scenario, workers int, sample func(any)) ([]Viol, Stats, error) {
	st := Stats{PerOp: map[string]int{}}
	ctx := context.Background()
	mk := func() (*runner, error) {
		env := &Env{Ctx: ctx, Store: vkv.NewStore(), Aux: map[string]any{}}
		return &runner{sc: sc, env: env}, nil
	}
	r0, _ := mk()
	if err := r0.open(vkv.Snap{}); err != nil {
		return nil, st, err
	}
	world.SeedRand("faultx-build", sc.Name)
	if err := sc.Build(r0.env); err != nil {
		return nil, st, fmt.Errorf("build: %w", err)
	}
	base := r0.env.Store.Snapshot()
	aux := r0.env.Aux
	if sc.Reopen {
		r0.live.Close()
		r0.live = nil
	}
	// prior states: BFS over fault-free operations
	type prior struct {
		sn   vkv.Snap
		path []string
	}
	seen := map[[32]byte]bool{hashOf(base): true}
	priors := []prior{{base, nil}}
	frontier := priors
	for d := 0; d < sc.Depth; d++ {
		var next []prior
		for _, p := range frontier {
			for _, op := range sc.Ops {
				res, err := r0.run(p.sn, op, nil, strings.Join(append(p.path, op.Name), "/"))
				if err != nil {
					return nil, st, err
				}
				if res.err != nil || res.panicky != nil {
					continue
				}
				h := hashOf(res.post)
				if seen[h] {
					continue
				}
				seen[h] = true
				np := prior{res.post, append(append([]string{}, p.path...), op.Name)}
				next = append(next, np)
				priors = append(priors, np)
			}
		}
		frontier = next
	}
	st.PriorStates = len(priors)

	type job struct {
		p  prior
		op Op
	}
	jobs := make(chan job, len(priors)*len(sc.Ops))
	for _, p := range priors {
		for _, op := range sc.Ops {
			jobs <- job{p, op}
		}
	}
	close(jobs)
	var mu sync.Mutex
	var viols []Viol
	classes := map[string]bool{}
	var wg sync.WaitGroup
	var firstErr error
	if workers < 1 {
		workers = 1
	}
	for w := 0; w < workers; w++ {
		wg.Add(1)
		go func() {
			defer wg.Done()
			defer world.UnseedRand()
			r, _ := mk()
			r.env.Aux = aux
			defer func() {
				if r.live != nil {
					r.live.Close()
				}
			}()
			for j := range jobs {
				seed := strings.Join(append(append([]string{}, j.p.path...), j.op.Name), "/")
				pre, err := r.run(j.p.sn, Op{Name: "noop", Run: func(*Env) error { return nil }}, nil, seed)
				if err != nil {
					mu.Lock()
					firstErr = err
					mu.Unlock()
					return
				}
				ff, err := r.run(j.p.sn, j.op, nil, seed)
				if err != nil {
					mu.Lock()
					firstErr = err
					mu.Unlock()
					return
				}
				if ff.panicky != nil {
					mu.Lock()
					viols = append(viols, Viol{Fingerprint: "C05:panic-fault-free:" + j.op.Name, Detail: fmt.Sprintf("prior %v: %v", j.p.path, ff.panicky)})
					mu.Unlock()
					continue
				}
				// determinism self-check: the fault-free run repeated gives the same storage log
				ff2, _ := r.run(j.p.sn, j.op, nil, seed)
				if logKey(ff.log) != logKey(ff2.log) || hashOf(ff.post) != hashOf(ff2.post) {
					mu.Lock()
					firstErr = fmt.Errorf("determinism self-check failed for %s from %v: two fault-free runs differ (%d vs %d calls)", j.op.Name, j.p.path, len(ff.log), len(ff2.log))
					mu.Unlock()
					return
				}
				if ff.err != nil {
					// not applicable in this state (e.g. document already deleted); still must leave no trace
					if ff.post.Hash(notBlock) != j.p.sn.Hash(notBlock) {
						mu.Lock()
						viols = append(viols, Viol{Fingerprint: "C05:failed-call-left-trace:" + j.op.Name, Detail: fmt.Sprintf("%v: %v", j.p.path, ff.err)})
						mu.Unlock()
					}
					continue
				}
				// fault points by (kind,key,occurrence)
				occ := map[string]int{}
				var fps []FaultPoint
				for _, o := range ff.log {
					k := o.Kind + " " + o.Key
					occ[k]++
					fps = append(fps, FaultPoint{o.Kind, o.Key, occ[k], "io"})
					if o.Kind == "commit" {
						fps = append(fps, FaultPoint{o.Kind, o.Key, occ[k], "conflict"})
					}
				}
				if sample != nil {
					sample(map[string]any{"scenario": sc.Name, "prior": j.p.path, "op": j.op.Name, "storage_calls": len(ff.log), "fault_points": len(fps)})
				}
				for i := range fps {
					fp := fps[i]
					res, err := r.run(j.p.sn, j.op, &fp, seed)
					if err != nil {
						mu.Lock()
						firstErr = err
						mu.Unlock()
						return
					}
					mu.Lock()
					st.Runs++
					st.FaultPoints++
					st.PerOp[j.op.Name]++
					if !res.hit {
						st.Unreached++
					}
					mu.Unlock()
					v := judge(sc, j.p.path, j.op, fp, &pre, &ff, &res)
					if v == nil {
						mu.Lock()
						if res.err != nil {
							st.OutcomeErrUnchanged++
						} else {
							st.OutcomeOkComplete++
						}
						mu.Unlock()
						continue
					}
					mu.Lock()
					if !classes[v.Fingerprint] {
						classes[v.Fingerprint] = true
						viols = append(viols, *v)
					}
					mu.Unlock()
				}
			}
		}()
	}
	wg.Wait()
	if firstErr != nil {
		return nil, st, firstErr
	}
	sort.Slice(viols, func(i, j int) bool { return viols[i].Fingerprint < viols[j].Fingerprint })
	return viols, st, nil
}

func logKey(l []vkv.Op) string {
	// order-insensitive within a transaction is not needed: compare the multiset of calls
	var ks []string
	for _, o := range l {
		ks = append(ks, o.Kind+" "+o.Key)
	}
	sort.Strings(ks)
	return strings.Join(ks, "\n")
}

func keyClass(k string) string {
	// /db/<store>/... -> store and first component, without identifiers
	parts := strings.Split(k, "/")
	if len(parts) >= 3 {
		s := "/" + parts[1] + "/" + parts[2]
		if len(parts) >= 4 && len(parts[3]) <= 3 {
			s += "/" + parts[3]
		}
		return s
	}
	return k
}

func judge(sc *Scenario, path []string, op Op, fp FaultPoint, pre, ff, res *runResult) *Viol {
	replay := map[string]any{"engine": "faultx", "scenario": sc.Name, "prior": path, "op": op.Name,
		"fault": map[string]any{"kind": fp.Kind, "key": fp.Key, "occurrence": fp.Occ, "fault": fp.Fault}}
	site := fp.Kind + "@" + keyClass(fp.Key) + ":" + fp.Fault
	mk := func(class, detail string) *Viol {
		return &Viol{Fingerprint: "C05:" + class + ":" + op.Name, Detail: fmt.Sprintf("prior %v, op %s, fault %s on %s %q #%d: %s", path, op.Name, fp.Fault, fp.Kind, fp.Key, fp.Occ, detail), Replay: replay}
	}
	_ = site
	if res.panicky != nil {
		return mk("panic", fmt.Sprint(res.panicky))
	}
	if !res.hit {
		// the faulted call was never issued: the run must equal the fault-free one
		if res.err != nil || hashOf(res.post) != hashOf(ff.post) {
			return nil // control flow legitimately differs before the point; nothing to judge
		}
		return nil
	}
	if res.err != nil {
		// blocks that no head reaches are not history (syncDAG stores what it fetched before the merge
		// runs); everything else must be byte-identical, and the commit listing is part of the dump
		if res.post.Hash(notBlock) != pre.post.Hash(notBlock) {
			return mk("error-but-store-changed", fmt.Sprintf("call failed with %q but the store changed: %s", res.err, diff(pre.post, res.post)))
		}
		if res.dump != pre.dump {
			return mk("error-but-state-changed", fmt.Sprintf("call failed with %q but the logical dump changed: %s", res.err, lineDiff(pre.dump, res.dump)))
		}
		if len(res.events) != 0 {
			return mk("event-for-failed-call", fmt.Sprintf("call failed with %q but %d update events were published", res.err, len(res.events)))
		}
		return nil
	}
	// reported success
	if hashOf(res.post) != hashOf(ff.post) {
		if hashOf(res.post) == hashOf(pre.post) {
			return mk("success-but-nothing-applied", "call returned nil although the store equals the pre-state (swallowed error)")
		}
		return mk("success-but-partial", "call returned nil with an effect different from the fault-free run: "+diff(ff.post, res.post))
	}
	if res.dump != ff.dump {
		return mk("success-but-dump-differs", "store equals the fault-free post-state but the logical dump differs (in-memory state): "+lineDiff(ff.dump, res.dump))
	}
	if strings.Join(res.events, "|") != strings.Join(ff.events, "|") {
		return mk("events-differ", fmt.Sprintf("events %v, fault-free %v", res.events, ff.events))
	}
	return nil
}

func diff(a, b vkv.Snap) string {
	am := map[string]string{}
	a.Each(func(k string, v []byte) { am[k] = string(v) })
	var d []string
	b.Each(func(k string, v []byte) {
		if o, ok := am[k]; !ok {
			d = append(d, "+"+k)
		} else if o != string(v) {
			d = append(d, "~"+k)
		}
		delete(am, k)
	})
	for k := range am {
		d = append(d, "-"+k)
	}
	sort.Strings(d)
	if len(d) > 8 {
		d = append(d[:8], fmt.Sprintf("... (%d keys)", len(d)))
	}
	return strings.Join(d, " ")
}

// Replay re-executes one recorded fault (scenario, prior path, op, fault point) and returns the verdict.
func Replay(sc *Scenario, path []string, opName string, fp FaultPoint) (*Viol, error) {
	ctx := context.Background()
	r := &runner{sc: sc, env: &Env{Ctx: ctx, Store: vkv.NewStore(), Aux: map[string]any{}}}
	if err := r.open(vkv.Snap{}); err != nil {
		return nil, err
	}
	world.SeedRand("faultx-build", sc.Name)
	if err := sc.Build(r.env); err != nil {
		return nil, err
	}
	sn := r.env.Store.Snapshot()
	if sc.Reopen {
		r.live.Close()
		r.live = nil
	}
	find := func(n string) (Op, error) {
		for _, o := range sc.Ops {
			if o.Name == n {
				return o, nil
			}
		}
		return Op{}, errors.New("unknown op " + n)
	}
	var done []string
	for _, n := range path {
		o, err := find(n)
		if err != nil {
			return nil, err
		}
		res, err := r.run(sn, o, nil, strings.Join(append(done, n), "/"))
		if err != nil || res.err != nil {
			return nil, fmt.Errorf("replay prefix %s: %v %v", n, err, res.err)
		}
		sn = res.post
		done = append(done, n)
	}
	o, err := find(opName)
	if err != nil {
		return nil, err
	}
	seed := strings.Join(append(append([]string{}, path...), opName), "/")
	pre, _ := r.run(sn, Op{Name: "noop", Run: func(*Env) error { return nil }}, nil, seed)
	ff, _ := r.run(sn, o, nil, seed)
	res, err := r.run(sn, o, &fp, seed)
	if err != nil {
		return nil, err
	}
	return judge(sc, path, o, fp, &pre, &ff, &res), nil
}

func lineDiff(a, b string) string {
	al, bl := strings.Split(a, "\n"), strings.Split(b, "\n")
	for i := 0; i < len(al) || i < len(bl); i++ {
		var x, y string
		if i < len(al) {
			x = al[i]
		}
		if i < len(bl) {
			y = bl[i]
		}
		if x != y {
			if len(x) > 300 {
				x = x[:300]
			}
			if len(y) > 300 {
				y = y[:300]
			}
			return fmt.Sprintf("line %d: expected %q got %q", i, x, y)
		}
	}
	return "equal"
}

func trimStack(b []byte) string {
	lines := strings.Split(string(b), "\n")
	var out []string
	for _, l := range lines {
		if strings.Contains(l, "/repo/") && !strings.Contains(l, "verifh") {
			out = append(out, strings.TrimSpace(l))
		}
		if len(out) >= 6 {
			break
		}
	}
	return strings.Join(out, " <- ")
}

func notBlock(k string) bool { return !strings.HasPrefix(k, "/db/blocks/") }
