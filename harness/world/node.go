package world

import (
	"context"
	"encoding/json"
	"fmt"
	"os"
	"runtime/debug"
	"sort"
	"strings"
	"time"

	"github.com/sourcenetwork/corekv"
	"github.com/sourcenetwork/immutable"

	"github.com/sourcenetwork/defradb/acp/dac"
	"github.com/sourcenetwork/defradb/client"
	"github.com/sourcenetwork/defradb/internal/db"
	"github.com/sourcenetwork/defradb/node"
)

// NewDB opens a database on store: no node ACP, no document ACP, signing off unless options say so.
func NewDB(ctx context.Context, store corekv.TxnStore, opts ...db.Option) (*db.DB, error) {
	lens, err := node.NewLens(ctx)
	if err != nil {
		return nil, err
	}
	all := append([]db.Option{db.WithEnabledSigning(false)}, opts...)
	return db.NewDB(ctx, store, db.NACInfo{}, immutable.None[dac.DocumentACP](), lens, all...)
}

// NewDBWithACP opens a database with a document ACP engine.
func NewDBWithACP(ctx context.Context, store corekv.TxnStore, acp dac.DocumentACP, opts ...db.Option) (*db.DB, error) {
	lens, err := node.NewLens(ctx)
	if err != nil {
		return nil, err
	}
	all := append([]db.Option{db.WithEnabledSigning(false)}, opts...)
	return db.NewDB(ctx, store, db.NACInfo{}, immutable.Some(acp), lens, all...)
}

// NewBadger opens the store the repository's test-suite runs on (badger, in memory).
func NewBadger(ctx context.Context) (corekv.TxnStore, error) {
	return node.NewStore(ctx, node.WithBadgerInMemory(true))
}

// Exec runs a request and returns its data and error strings.
func Exec(ctx context.Context, d *db.DB, req string, opts ...client.RequestOption) (any, []string) {
	r := d.ExecRequest(ctx, req, opts...)
	var errs []string
	for _, e := range r.GQL.Errors {
		errs = append(errs, e.Error())
	}
	return r.GQL.Data, errs
}

// Rows extracts the rows of one top-level selection.
func Rows(data any, name string) []map[string]any {
	m, ok := data.(map[string]any)
	if !ok {
		return nil
	}
	switch v := m[name].(type) {
	case []map[string]any:
		return v
	case []any:
		var out []map[string]any
		for _, x := range v {
			if mm, ok := x.(map[string]any); ok {
				out = append(out, mm)
			}
		}
		return out
	}
	return nil
}

// Canon is a canonical text of a request result (maps sorted by key).
func Canon(v any) string {
	var b strings.Builder
	canon(&b, v)
	return b.String()
}

func canon(b *strings.Builder, v any) {
	switch x := v.(type) {
	case nil:
		b.WriteString("null")
	case map[string]any:
		ks := make([]string, 0, len(x))
		for k := range x {
			ks = append(ks, k)
		}
		sort.Strings(ks)
		b.WriteByte('{')
		for i, k := range ks {
			if i > 0 {
				b.WriteByte(',')
			}
			b.WriteString(k)
			b.WriteByte(':')
			canon(b, x[k])
		}
		b.WriteByte('}')
	case []map[string]any:
		b.WriteByte('[')
		for i, e := range x {
			if i > 0 {
				b.WriteByte(',')
			}
			canon(b, e)
		}
		b.WriteByte(']')
	case []any:
		b.WriteByte('[')
		for i, e := range x {
			if i > 0 {
				b.WriteByte(',')
			}
			canon(b, e)
		}
		b.WriteByte(']')
	case string:
		j, _ := json.Marshal(x)
		b.Write(j)
	default:
		if j, err := json.Marshal(x); err == nil {
			b.Write(j)
		} else {
			fmt.Fprintf(b, "%v", x)
		}
	}
}

// CanonRowsUnordered renders rows sorted by their canonical text (a multiset).
func CanonRowsUnordered(rows []map[string]any) string {
	ss := make([]string, len(rows))
	for i, r := range rows {
		ss[i] = Canon(r)
	}
	sort.Strings(ss)
	return "[" + strings.Join(ss, ",") + "]"
}

// HangTimeout is the liveness deadline of a guarded request. It is far above any request's cost
// (milliseconds); a request that has not returned by then is reported as hanging.
var HangTimeout = 45 * time.Second

// ExecGuard runs a request on its own goroutine and reports hung=true if it does not return within
// HangTimeout (the goroutine is then abandoned; the caller should stop using this database).
// Panics are recovered and reported.
func ExecGuard(ctx context.Context, d *db.DB, req string, opts ...client.RequestOption) (data any, errs []string, hung bool, panicked any) {
	type res struct {
		data any
		errs []string
		p    any
	}
	ch := make(chan res, 1)
	go func() {
		var r res
		defer func() {
			if p := recover(); p != nil {
				r.p = fmt.Sprint(p)
				if os.Getenv("VERIF_STACK") != "" {
					fmt.Fprintf(os.Stderr, "%v\n%s\n", p, debug.Stack())
				}
			}
			ch <- r
		}()
		r.data, r.errs = Exec(ctx, d, req, opts...)
	}()
	select {
	case r := <-ch:
		return r.data, r.errs, false, r.p
	case <-time.After(HangTimeout):
		return nil, nil, true, nil
	}
}
