package world

import (
	"context"

	"github.com/sourcenetwork/corekv"

	"github.com/sourcenetwork/defradb/internal/verifh/vkv"
)

// Dev is a store under a database that can be snapshotted and restored: vkv natively, badger by
// applying the difference to a saved content inside one write transaction.
type Dev interface {
	corekv.TxnStore
	Snapshot() vkv.Snap
	Restore(vkv.Snap)
}

type BadgerDev struct{ corekv.TxnStore }

func NewBadgerDev(ctx context.Context) (*BadgerDev, error) {
	b, err := NewBadger(ctx)
	if err != nil {
		return nil, err
	}
	return &BadgerDev{b}, nil
}

func (b *BadgerDev) Snapshot() vkv.Snap { return vkv.SnapOf(context.Background(), b.TxnStore) }

func (b *BadgerDev) Restore(sn vkv.Snap) {
	ctx := context.Background()
	cur := b.Snapshot()
	t := b.TxnStore.NewTxn(false)
	cur.Each(func(k string, v []byte) {
		if _, ok := sn.Get(k); !ok {
			if err := t.Delete(ctx, []byte(k)); err != nil {
				panic(err)
			}
		}
	})
	sn.Each(func(k string, v []byte) {
		if old, ok := cur.Get(k); !ok || string(old) != string(v) {
			if err := t.Set(ctx, []byte(k), v); err != nil {
				panic(err)
			}
		}
	})
	if err := t.Commit(); err != nil {
		panic(err)
	}
}
