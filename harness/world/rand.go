// Package world holds what every driver shares: owned randomness, node construction,
// request helpers, canonical encodings.
package world

import (
	"bytes"
	"crypto/rand"
	"crypto/sha256"
	"fmt"
	"io"
	"runtime"
	"strconv"
	"sync"
)

func Goid() int64 {
	var buf [64]byte
	b := buf[:runtime.Stack(buf[:], false)]
	b = b[len("goroutine "):]
	b = b[:bytes.IndexByte(b, ' ')]
	n, _ := strconv.ParseInt(string(b), 10, 64)
	return n
}

type detStream struct{ st [32]byte }

func (z *detStream) Read(p []byte) (int, error) {
	for i := 0; i < len(p); {
		z.st = sha256.Sum256(z.st[:])
		i += copy(p[i:], z.st[:])
	}
	return len(p), nil
}

// ownedReader replaces crypto/rand.Reader: goroutines that called SeedRand read from their own keyed
// deterministic stream, all others from the original source.
type ownedReader struct {
	mu      sync.Mutex
	streams map[int64]*detStream
	orig    io.Reader
	Foreign int // reads served from the original source (reported as a determinism diagnostic)
}

var owned *ownedReader
var ownOnce sync.Once

func (o *ownedReader) Read(p []byte) (int, error) {
	o.mu.Lock()
	s := o.streams[Goid()]
	if s == nil {
		o.Foreign++
	}
	o.mu.Unlock()
	if s == nil {
		return o.orig.Read(p)
	}
	return s.Read(p)
}

// SeedRand keys the calling goroutine's random stream by parts (variant, node, local op index, ...).
func SeedRand(parts ...any) {
	ownOnce.Do(func() {
		owned = &ownedReader{streams: map[int64]*detStream{}, orig: rand.Reader}
		rand.Reader = owned
	})
	s := &detStream{st: sha256.Sum256([]byte(fmt.Sprint(parts...)))}
	owned.mu.Lock()
	owned.streams[Goid()] = s
	owned.mu.Unlock()
}

// UnseedRand returns the calling goroutine to the original source.
func UnseedRand() {
	if owned == nil {
		return
	}
	owned.mu.Lock()
	delete(owned.streams, Goid())
	owned.mu.Unlock()
}
