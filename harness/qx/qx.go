// Package qx is engine E6 (DESIGN.md §3): bounded-exhaustive generation of document sets and
// requests, with a reference evaluator written from the query specification, metamorphic relations
// and twin databases.
package qx

import (
	"fmt"
	"sort"
	"strings"
)

// Doc is one document of the test collection T { u: Int  a: Int  b: Int  s: String }.
// u is a unique ordinal (so that documents with equal a/b/s are distinct documents).
type Doc struct {
	U       int
	A, B    *int64
	S       *string
}

func i64(v int64) *int64 { return &v }
func str(v string) *string { return &v }

func (d Doc) Input() string {
	var fs []string
	fs = append(fs, fmt.Sprintf("u: %d", d.U))
	if d.A != nil {
		fs = append(fs, fmt.Sprintf("a: %d", *d.A))
	}
	if d.B != nil {
		fs = append(fs, fmt.Sprintf("b: %d", *d.B))
	}
	if d.S != nil {
		fs = append(fs, fmt.Sprintf("s: %q", *d.S))
	}
	return "{" + strings.Join(fs, ", ") + "}"
}

func (d Doc) String() string {
	p := func(x *int64) string {
		if x == nil {
			return "null"
		}
		return fmt.Sprint(*x)
	}
	s := "null"
	if d.S != nil {
		s = *d.S
	}
	return fmt.Sprintf("(u%d a=%s b=%s s=%s)", d.U, p(d.A), p(d.B), s)
}

func (d Doc) HasNull() bool { return d.A == nil || d.B == nil || d.S == nil }

func (d Doc) Int(f string) *int64 {
	switch f {
	case "a":
		return d.A
	case "b":
		return d.B
	case "u":
		v := int64(d.U)
		return &v
	}
	return nil
}

// Shapes enumerates the (a,b,s) value combinations of the alphabet.
func Shapes(withNull bool) []Doc {
	as := []*int64{i64(0), i64(1), i64(2)}
	bs := []*int64{i64(1), i64(2)}
	ss := []*string{str("x"), str("yx")}
	if withNull {
		as = []*int64{i64(0), i64(1), nil}
		bs = []*int64{i64(1), nil}
		ss = []*string{str("x"), nil}
	}
	var out []Doc
	for _, a := range as {
		for _, b := range bs {
			for _, s := range ss {
				out = append(out, Doc{A: a, B: b, S: s})
			}
		}
	}
	return out
}

// DocSets enumerates all multisets of size 0..k over the shapes (u numbers the documents).
func DocSets(shapes []Doc, k int) [][]Doc {
	var out [][]Doc
	var rec func(start int, cur []Doc)
	rec = func(start int, cur []Doc) {
		cp := make([]Doc, len(cur))
		for i, d := range cur {
			d.U = i
			cp[i] = d
		}
		out = append(out, cp)
		if len(cur) == k {
			return
		}
		for i := start; i < len(shapes); i++ {
			rec(i, append(cur, shapes[i]))
		}
	}
	rec(0, nil)
	return out
}

// ---------- filters ----------

type Filter interface {
	GQL() string
	// Eval on a document; defined=false when the documented semantics are silent (null involved).
	Eval(d Doc) (match, defined bool)
	Fields() []string
}

type Cond struct {
	Field string
	Op    string
	Int   int64
	Str   string
	Ints  []int64
	Strs  []string
}

func (c Cond) isStr() bool { return c.Field == "s" }

func (c Cond) Fields() []string { return []string{c.Field} }

func (c Cond) GQL() string {
	var v string
	switch c.Op {
	case "_in", "_nin":
		var xs []string
		if c.isStr() {
			for _, s := range c.Strs {
				xs = append(xs, fmt.Sprintf("%q", s))
			}
		} else {
			for _, i := range c.Ints {
				xs = append(xs, fmt.Sprint(i))
			}
		}
		v = "[" + strings.Join(xs, ", ") + "]"
	default:
		if c.isStr() {
			v = fmt.Sprintf("%q", c.Str)
		} else {
			v = fmt.Sprint(c.Int)
		}
	}
	return fmt.Sprintf("{%s: {%s: %s}}", c.Field, c.Op, v)
}

func likeMatch(pat, s string) bool {
	// documented: % matches any sequence of characters
	switch {
	case strings.HasPrefix(pat, "%") && strings.HasSuffix(pat, "%") && len(pat) >= 2:
		return strings.Contains(s, pat[1:len(pat)-1])
	case strings.HasPrefix(pat, "%"):
		return strings.HasSuffix(s, pat[1:])
	case strings.HasSuffix(pat, "%"):
		return strings.HasPrefix(s, pat[:len(pat)-1])
	}
	return s == pat
}

func (c Cond) Eval(d Doc) (bool, bool) {
	if c.isStr() {
		if d.S == nil {
			return false, false
		}
		s := *d.S
		switch c.Op {
		case "_eq":
			return s == c.Str, true
		case "_ne":
			return s != c.Str, true
		case "_in":
			for _, x := range c.Strs {
				if x == s {
					return true, true
				}
			}
			return false, true
		case "_nin":
			for _, x := range c.Strs {
				if x == s {
					return false, true
				}
			}
			return true, true
		case "_like":
			return likeMatch(c.Str, s), true
		case "_nlike":
			return !likeMatch(c.Str, s), true
		}
		return false, false
	}
	p := d.Int(c.Field)
	if p == nil {
		return false, false
	}
	v := *p
	switch c.Op {
	case "_eq":
		return v == c.Int, true
	case "_ne":
		return v != c.Int, true
	case "_gt":
		return v > c.Int, true
	case "_ge":
		return v >= c.Int, true
	case "_lt":
		return v < c.Int, true
	case "_le":
		return v <= c.Int, true
	case "_in":
		for _, x := range c.Ints {
			if x == v {
				return true, true
			}
		}
		return false, true
	case "_nin":
		for _, x := range c.Ints {
			if x == v {
				return false, true
			}
		}
		return true, true
	}
	return false, false
}

type And struct{ L, R Filter }
type Or struct{ L, R Filter }
type Not struct{ F Filter }

func inner(f Filter) string { g := f.GQL(); return g }

func (f And) GQL() string { return fmt.Sprintf("{_and: [%s, %s]}", inner(f.L), inner(f.R)) }
func (f Or) GQL() string  { return fmt.Sprintf("{_or: [%s, %s]}", inner(f.L), inner(f.R)) }
func (f Not) GQL() string { return fmt.Sprintf("{_not: %s}", inner(f.F)) }
func (f And) Fields() []string { return append(f.L.Fields(), f.R.Fields()...) }
func (f Or) Fields() []string  { return append(f.L.Fields(), f.R.Fields()...) }
func (f Not) Fields() []string { return f.F.Fields() }
func (f And) Eval(d Doc) (bool, bool) {
	a, da := f.L.Eval(d)
	b, db := f.R.Eval(d)
	return a && b, da && db
}
func (f Or) Eval(d Doc) (bool, bool) {
	a, da := f.L.Eval(d)
	b, db := f.R.Eval(d)
	return a || b, da && db
}
func (f Not) Eval(d Doc) (bool, bool) {
	a, da := f.F.Eval(d)
	return !a, da
}

// Atoms enumerates the atomic conditions of the grammar.
func Atoms() []Filter {
	var out []Filter
	for _, f := range []string{"a", "b"} {
		for _, op := range []string{"_eq", "_ne", "_gt", "_ge", "_lt", "_le"} {
			for _, v := range []int64{0, 1, 2} {
				out = append(out, Cond{Field: f, Op: op, Int: v})
			}
		}
		for _, op := range []string{"_in", "_nin"} {
			for _, vs := range [][]int64{{}, {1}, {0, 2}} {
				out = append(out, Cond{Field: f, Op: op, Ints: vs})
			}
		}
	}
	for _, op := range []string{"_eq", "_ne"} {
		for _, v := range []string{"x", "yx", "zz"} {
			out = append(out, Cond{Field: "s", Op: op, Str: v})
		}
	}
	for _, op := range []string{"_like", "_nlike"} {
		for _, v := range []string{"x", "%x", "y%", "%y%", "q%"} {
			out = append(out, Cond{Field: "s", Op: op, Str: v})
		}
	}
	for _, op := range []string{"_in", "_nin"} {
		for _, vs := range [][]string{{"x"}, {"yx", "zz"}} {
			out = append(out, Cond{Field: "s", Op: op, Strs: vs})
		}
	}
	return out
}

// Filters enumerates the filter terms: every atom, _not of every atom, and _and/_or of every pair
// drawn from a reduced atom set (depth 2).
func Filters(full bool) []Filter {
	atoms := Atoms()
	out := append([]Filter{}, atoms...)
	for _, a := range atoms {
		out = append(out, Not{a})
	}
	var red []Filter
	for _, a := range atoms {
		c := a.(Cond)
		keep := false
		switch {
		case c.Field == "a" && (c.Op == "_ge" || c.Op == "_lt" || c.Op == "_eq" || c.Op == "_ne") && c.Int == 1:
			keep = true
		case c.Field == "b" && (c.Op == "_eq" || c.Op == "_gt") && c.Int == 1:
			keep = true
		case c.Field == "s" && (c.Op == "_eq" && c.Str == "x" || c.Op == "_like" && c.Str == "y%"):
			keep = true
		case full && c.Field == "a" && (c.Op == "_in" || c.Op == "_nin") && len(c.Ints) == 2:
			keep = true
		}
		if keep {
			red = append(red, a)
		}
	}
	for _, l := range red {
		for _, r := range red {
			out = append(out, And{l, r}, Or{l, r})
		}
		out = append(out, Not{And{l, red[0]}}, Not{Or{l, red[len(red)-1]}})
	}
	return out
}

// ---------- order / limit ----------

type OrderKey struct {
	Field string
	Desc  bool
}

func OrderGQL(keys []OrderKey) string {
	var ps []string
	for _, k := range keys {
		dir := "ASC"
		if k.Desc {
			dir = "DESC"
		}
		ps = append(ps, fmt.Sprintf("{%s: %s}", k.Field, dir))
	}
	return "[" + strings.Join(ps, ", ") + "]"
}

func Orders() [][]OrderKey {
	var out [][]OrderKey
	for _, f := range []string{"a", "b", "s"} {
		out = append(out, []OrderKey{{f, false}}, []OrderKey{{f, true}})
	}
	for _, p := range [][2]string{{"a", "b"}, {"b", "a"}, {"b", "s"}, {"s", "a"}} {
		for _, d1 := range []bool{false, true} {
			for _, d2 := range []bool{false, true} {
				out = append(out, []OrderKey{{p[0], d1}, {p[1], d2}})
			}
		}
	}
	return out
}

// KeyTuple renders the sort-key tuple of a document.
func KeyTuple(d Doc, keys []OrderKey) string {
	var ps []string
	for _, k := range keys {
		switch k.Field {
		case "s":
			if d.S == nil {
				ps = append(ps, "null")
			} else {
				ps = append(ps, fmt.Sprintf("%q", *d.S))
			}
		default:
			if p := d.Int(k.Field); p == nil {
				ps = append(ps, "null")
			} else {
				ps = append(ps, fmt.Sprint(*p))
			}
		}
	}
	return strings.Join(ps, ",")
}

// less orders documents by the keys (documented: first key, ties by the following keys). Only
// defined on documents without null in the key fields.
func less(x, y Doc, keys []OrderKey) bool {
	for _, k := range keys {
		var c int
		if k.Field == "s" {
			c = strings.Compare(*x.S, *y.S)
		} else {
			a, b := *x.Int(k.Field), *y.Int(k.Field)
			switch {
			case a < b:
				c = -1
			case a > b:
				c = 1
			}
		}
		if c == 0 {
			continue
		}
		if k.Desc {
			return c > 0
		}
		return c < 0
	}
	return false
}

// SortedKeyTuples is the reference for `order`: the sequence of key tuples.
func SortedKeyTuples(docs []Doc, keys []OrderKey) []string {
	cp := append([]Doc{}, docs...)
	sort.SliceStable(cp, func(i, j int) bool { return less(cp[i], cp[j], keys) })
	out := make([]string, len(cp))
	for i, d := range cp {
		out[i] = KeyTuple(d, keys)
	}
	return out
}

// Slice applies limit/offset (limit 0 = none).
func Slice[T any](xs []T, limit, offset int) []T {
	if offset > len(xs) {
		offset = len(xs)
	}
	xs = xs[offset:]
	if limit > 0 && limit < len(xs) {
		xs = xs[:limit]
	}
	return xs
}
