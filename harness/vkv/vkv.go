// Package vkv is the storage device of the explorers (DESIGN.md §2.3): an ordered,
// multi-version, transactional key-value store implementing corekv.TxnStore with
// badger's conflict rule, plus O(1) snapshot/restore, a numbered operation log with
// injectable answers, commit-boundary snapshots and a canonical content hash.
package vkv

import (
	"bytes"
	"context"
	"crypto/sha256"
	"errors"
	"sort"
	"sync"

	"github.com/sourcenetwork/corekv"
)

type kv struct {
	k string
	v []byte
}

type version struct {
	data []kv // sorted by k, immutable
	ver  uint64
}

type logEntry struct {
	ver  uint64
	keys map[string]struct{}
}

// Op describes one storage call about to be answered.
type Op struct {
	Seq  int    // 1-based index in the store's lifetime (reset by ResetOps)
	Kind string // newtxn get has set del iter next value seek commit discard
	Key  string
	Txn  int // id of the transaction (0 = store-level implicit)
	RO   bool
}

// Hook sees every operation before it is answered; a non-nil error becomes the answer.
type Hook func(op *Op) error

var ErrInjected = errors.New("vkv: injected storage fault")
var errCommitDiscarded = errors.New("Trying to commit a discarded txn")

type Store struct {
	mu     sync.Mutex
	cur    *version
	log    []logEntry
	closed bool
	ops    int
	ntxn   int
	hook   Hook
	// OnCommit, if set, is called (outside the lock) after every commit that changed the store.
	OnCommit func(Snap)
}

var _ corekv.TxnStore = (*Store)(nil)

func NewStore() *Store { return &Store{cur: &version{}} }

// Snap is an immutable point-in-time content of the store.
type Snap struct{ v *version }

func (s *Store) Snapshot() Snap { s.mu.Lock(); defer s.mu.Unlock(); return Snap{s.cur} }

// Restore makes sn the committed content. Open transactions are not touched (callers restore
// only between API calls).
func (s *Store) Restore(sn Snap) {
	s.mu.Lock()
	defer s.mu.Unlock()
	if sn.v == nil {
		sn.v = &version{}
	}
	s.cur = sn.v
	s.log = nil
	s.closed = false
}

// NewStoreFrom returns a fresh store whose content is sn.
func NewStoreFrom(sn Snap) *Store { s := NewStore(); s.Restore(sn); return s }

func (s *Store) SetHook(h Hook) { s.mu.Lock(); s.hook = h; s.mu.Unlock() }
func (s *Store) ResetOps()      { s.mu.Lock(); s.ops = 0; s.mu.Unlock() }
func (s *Store) Ops() int       { s.mu.Lock(); defer s.mu.Unlock(); return s.ops }

func (s *Store) op(kind string, key []byte, txn int, ro bool) error {
	s.mu.Lock()
	s.ops++
	h := s.hook
	o := Op{Seq: s.ops, Kind: kind, Key: string(key), Txn: txn, RO: ro}
	s.mu.Unlock()
	if h != nil {
		return h(&o)
	}
	return nil
}

func (v *version) find(k string) (int, bool) {
	i := sort.Search(len(v.data), func(i int) bool { return v.data[i].k >= k })
	return i, i < len(v.data) && v.data[i].k == k
}

// Len returns the number of keys in the snapshot.
func (sn Snap) Len() int {
	if sn.v == nil {
		return 0
	}
	return len(sn.v.data)
}

// Each visits the snapshot in key order.
func (sn Snap) Each(f func(k string, v []byte)) {
	if sn.v == nil {
		return
	}
	for _, e := range sn.v.data {
		f(e.k, e.v)
	}
}

// Get reads one key of the snapshot.
func (sn Snap) Get(k string) ([]byte, bool) {
	if sn.v == nil {
		return nil, false
	}
	if i, ok := sn.v.find(k); ok {
		return sn.v.data[i].v, true
	}
	return nil, false
}

// Hash is a canonical digest of the content, optionally restricted by keep.
func (sn Snap) Hash(keep func(k string) bool) [32]byte {
	h := sha256.New()
	var lb [8]byte
	w := func(b []byte) {
		n := len(b)
		for i := 0; i < 8; i++ {
			lb[i] = byte(n >> (8 * i))
		}
		h.Write(lb[:])
		h.Write(b)
	}
	sn.Each(func(k string, v []byte) {
		if keep != nil && !keep(k) {
			return
		}
		w([]byte(k))
		w(v)
	})
	var out [32]byte
	copy(out[:], h.Sum(nil))
	return out
}

type Txn struct {
	s        *Store
	id       int
	base     *version
	writes   map[string][]byte
	dels     map[string]bool
	reads    map[string]struct{}
	readonly bool
	done     bool
	mu       sync.Mutex
}

func (s *Store) NewTxn(readonly bool) corekv.Txn { return s.newTxn(readonly, true) }

func (s *Store) newTxn(readonly, visible bool) *Txn {
	s.mu.Lock()
	s.ntxn++
	id := s.ntxn
	s.mu.Unlock()
	if visible {
		_ = s.op("newtxn", nil, id, readonly) // a scheduling point; faults are not injected here
	}
	s.mu.Lock()
	defer s.mu.Unlock()
	return &Txn{s: s, id: id, base: s.cur, writes: map[string][]byte{}, dels: map[string]bool{},
		reads: map[string]struct{}{}, readonly: readonly}
}

func (s *Store) Close() error { s.mu.Lock(); s.closed = true; s.mu.Unlock(); return nil }

func (s *Store) Get(ctx context.Context, key []byte) ([]byte, error) {
	t := s.newTxn(true, false)
	t.id = 0
	defer t.Discard()
	return t.Get(ctx, key)
}
func (s *Store) Has(ctx context.Context, key []byte) (bool, error) {
	t := s.newTxn(true, false)
	t.id = 0
	defer t.Discard()
	return t.Has(ctx, key)
}
func (s *Store) Set(ctx context.Context, key, value []byte) error {
	t := s.newTxn(false, false)
	t.id = 0
	if err := t.Set(ctx, key, value); err != nil {
		return err
	}
	return t.commit(false)
}
func (s *Store) Delete(ctx context.Context, key []byte) error {
	t := s.newTxn(false, false)
	t.id = 0
	if err := t.Delete(ctx, key); err != nil {
		return err
	}
	return t.commit(false)
}
func (s *Store) Iterator(ctx context.Context, o corekv.IterOptions) (corekv.Iterator, error) {
	t := s.newTxn(true, false)
	t.id = 0
	return t.Iterator(ctx, o)
}

func (t *Txn) Get(ctx context.Context, key []byte) ([]byte, error) {
	if err := t.s.op("get", key, t.id, t.readonly); err != nil {
		return nil, err
	}
	return t.get(key)
}

func (t *Txn) get(key []byte) ([]byte, error) {
	t.mu.Lock()
	defer t.mu.Unlock()
	if t.done {
		return nil, corekv.ErrDiscardedTxn
	}
	if len(key) == 0 {
		return nil, corekv.ErrEmptyKey
	}
	k := string(key)
	if t.dels[k] {
		return nil, corekv.ErrNotFound
	}
	if v, ok := t.writes[k]; ok {
		return append([]byte{}, v...), nil
	}
	if !t.readonly {
		t.reads[k] = struct{}{}
	}
	if i, ok := t.base.find(k); ok {
		return append([]byte{}, t.base.data[i].v...), nil
	}
	return nil, corekv.ErrNotFound
}

func (t *Txn) Has(ctx context.Context, key []byte) (bool, error) {
	if err := t.s.op("has", key, t.id, t.readonly); err != nil {
		return false, err
	}
	_, err := t.get(key)
	if err == corekv.ErrNotFound {
		return false, nil
	}
	return err == nil, err
}

func (t *Txn) Set(ctx context.Context, key, value []byte) error {
	if err := t.s.op("set", key, t.id, t.readonly); err != nil {
		return err
	}
	t.mu.Lock()
	defer t.mu.Unlock()
	if t.done {
		return corekv.ErrDiscardedTxn
	}
	if t.readonly {
		return corekv.ErrReadOnlyTxn
	}
	if len(key) == 0 {
		return corekv.ErrEmptyKey
	}
	k := string(key)
	delete(t.dels, k)
	t.writes[k] = append([]byte{}, value...)
	return nil
}

func (t *Txn) Delete(ctx context.Context, key []byte) error {
	if err := t.s.op("del", key, t.id, t.readonly); err != nil {
		return err
	}
	t.mu.Lock()
	defer t.mu.Unlock()
	if t.done {
		return corekv.ErrDiscardedTxn
	}
	if t.readonly {
		return corekv.ErrReadOnlyTxn
	}
	if len(key) == 0 {
		return corekv.ErrEmptyKey
	}
	k := string(key)
	delete(t.writes, k)
	t.dels[k] = true
	return nil
}

func (t *Txn) Discard() {
	t.mu.Lock()
	was := t.done
	t.done = true
	t.mu.Unlock()
	if !was && t.id != 0 {
		_ = t.s.op("discard", nil, t.id, t.readonly)
	}
}

func (t *Txn) Commit() error { return t.commit(true) }

func (t *Txn) commit(visible bool) error {
	if visible {
		if err := t.s.op("commit", nil, t.id, t.readonly); err != nil {
			t.mu.Lock()
			t.done = true
			t.mu.Unlock()
			return err
		}
	}
	t.mu.Lock()
	was := t.done
	t.done = true
	t.mu.Unlock()
	// badger: a commit without pending writes returns nil even on a finished transaction; with
	// pending writes a finished transaction refuses.
	if t.readonly || (len(t.writes) == 0 && len(t.dels) == 0) {
		return nil
	}
	if was {
		return errCommitDiscarded
	}
	s := t.s
	s.mu.Lock()
	if len(t.reads) > 0 {
		for _, e := range s.log {
			if e.ver <= t.base.ver {
				continue
			}
			for k := range t.reads {
				if _, hit := e.keys[k]; hit {
					s.mu.Unlock()
					return corekv.ErrTxnConflict
				}
			}
		}
	}
	keys := make(map[string]struct{}, len(t.writes)+len(t.dels))
	up := make([]kv, 0, len(t.writes)+len(t.dels))
	for k, v := range t.writes {
		keys[k] = struct{}{}
		up = append(up, kv{k, v})
	}
	for k := range t.dels {
		keys[k] = struct{}{}
		up = append(up, kv{k, nil})
	}
	sort.Slice(up, func(i, j int) bool { return up[i].k < up[j].k })
	old := s.cur.data
	nd := make([]kv, 0, len(old)+len(up))
	i, j := 0, 0
	for i < len(old) || j < len(up) {
		switch {
		case j >= len(up) || (i < len(old) && old[i].k < up[j].k):
			nd = append(nd, old[i])
			i++
		case i >= len(old) || up[j].k < old[i].k:
			if !t.dels[up[j].k] {
				nd = append(nd, up[j])
			}
			j++
		default:
			if !t.dels[up[j].k] {
				nd = append(nd, up[j])
			}
			i++
			j++
		}
	}
	s.cur = &version{data: nd, ver: s.cur.ver + 1}
	s.log = append(s.log, logEntry{s.cur.ver, keys})
	oc := s.OnCommit
	sn := Snap{s.cur}
	s.mu.Unlock()
	if oc != nil {
		oc(sn)
	}
	return nil
}

type iter struct {
	t      *Txn
	items  []kv
	pos    int
	o      corekv.IterOptions
	start  []byte
	end    []byte
	reset  bool
	closed bool
}

func prefixEnd(b []byte) []byte {
	end := make([]byte, len(b))
	copy(end, b)
	for i := len(end) - 1; i >= 0; i-- {
		end[i]++
		if end[i] != 0 {
			return end[:i+1]
		}
	}
	return b
}

func (t *Txn) Iterator(ctx context.Context, o corekv.IterOptions) (corekv.Iterator, error) {
	key := o.Prefix
	if key == nil {
		key = o.Start
	}
	if err := t.s.op("iter", key, t.id, t.readonly); err != nil {
		return nil, err
	}
	t.mu.Lock()
	defer t.mu.Unlock()
	if t.done {
		return nil, corekv.ErrDiscardedTxn
	}
	t.s.mu.Lock()
	closed := t.s.closed
	t.s.mu.Unlock()
	if closed {
		return nil, corekv.ErrDBClosed
	}
	var start, end []byte
	if o.Prefix != nil {
		start, end = o.Prefix, prefixEnd(o.Prefix)
	} else {
		start, end = o.Start, o.End
	}
	in := func(k string) bool {
		if len(start) > 0 && k < string(start) {
			return false
		}
		if len(end) > 0 && k >= string(end) {
			return false
		}
		return true
	}
	var items []kv
	seen := make(map[string]bool, len(t.writes)+len(t.dels))
	for k, v := range t.writes {
		if in(k) {
			items = append(items, kv{k, v})
		}
		seen[k] = true
	}
	for k := range t.dels {
		seen[k] = true
	}
	for _, e := range t.base.data {
		if !seen[e.k] && in(e.k) {
			items = append(items, e)
		}
	}
	sort.Slice(items, func(i, j int) bool {
		if o.Reverse {
			return items[i].k > items[j].k
		}
		return items[i].k < items[j].k
	})
	return &iter{t: t, items: items, pos: -1, o: o, start: start, end: end, reset: true}, nil
}

func (it *iter) touch() {
	if it.pos >= 0 && it.pos < len(it.items) && !it.t.readonly {
		it.t.mu.Lock()
		it.t.reads[it.items[it.pos].k] = struct{}{}
		it.t.mu.Unlock()
	}
}

func (it *iter) Next() (bool, error) {
	if err := it.t.s.op("next", nil, it.t.id, it.t.readonly); err != nil {
		return false, err
	}
	if it.reset {
		it.reset = false
		it.pos = 0
	} else if it.pos < len(it.items) {
		it.pos++
	}
	it.touch()
	return it.pos < len(it.items), nil
}

func (it *iter) Key() []byte { return []byte(it.items[it.pos].k) }

func (it *iter) Value() ([]byte, error) {
	if err := it.t.s.op("value", []byte(it.items[it.pos].k), it.t.id, it.t.readonly); err != nil {
		return nil, err
	}
	if it.o.KeysOnly {
		return nil, nil
	}
	return append([]byte{}, it.items[it.pos].v...), nil
}

func (it *iter) Seek(k []byte) (bool, error) {
	if err := it.t.s.op("seek", k, it.t.id, it.t.readonly); err != nil {
		return false, err
	}
	it.reset = false
	it.pos = sort.Search(len(it.items), func(i int) bool {
		if it.o.Reverse {
			return bytes.Compare([]byte(it.items[i].k), k) <= 0
		}
		return bytes.Compare([]byte(it.items[i].k), k) >= 0
	})
	it.touch()
	return it.pos < len(it.items), nil
}

func (it *iter) Reset() { it.reset = true }

func (it *iter) Close() error {
	it.closed = true
	if it.t.id == 0 {
		it.t.mu.Lock()
		it.t.done = true
		it.t.mu.Unlock()
	}
	return nil
}

// SnapOf copies the whole content of any corekv store into a snapshot value.
func SnapOf(ctx context.Context, st corekv.Store) Snap {
	it, err := st.Iterator(ctx, corekv.IterOptions{})
	if err != nil {
		panic(err)
	}
	defer it.Close()
	v := &version{}
	for {
		ok, err := it.Next()
		if err != nil {
			panic(err)
		}
		if !ok {
			break
		}
		val, err := it.Value()
		if err != nil {
			panic(err)
		}
		v.data = append(v.data, kv{string(it.Key()), val})
	}
	sort.Slice(v.data, func(i, j int) bool { return v.data[i].k < v.data[j].k })
	return Snap{v}
}
