package db

import (
	"context"

	"github.com/sourcenetwork/defradb/event"
)

// VerifMerge runs one merge synchronously and returns its error.
func (db *DB) VerifMerge(ctx context.Context, evt event.Merge) error {
	col, err := getCollectionFromCollectionID(ctx, db, evt.CollectionID)
	if err != nil {
		return err
	}
	return db.executeMerge(ctx, col, evt)
}

// VerifMergeQueue exposes the unexported merge queue.
type VerifMergeQueue struct{ q *mergeQueue }

func NewVerifMergeQueue() VerifMergeQueue   { return VerifMergeQueue{newMergeQueue()} }
func (v VerifMergeQueue) Add(k string)      { v.q.add(k) }
func (v VerifMergeQueue) Done(k string)     { v.q.done(k) }
