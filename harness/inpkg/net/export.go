package net

import (
	"context"

	"github.com/ipfs/boxo/blockservice"

	coreblock "github.com/sourcenetwork/defradb/internal/core/block"
)

// VerifSyncDAG exposes the package-private DAG sync entry point (receive path of processPushlog).
func VerifSyncDAG(ctx context.Context, bs blockservice.BlockService, block *coreblock.Block) error {
	return syncDAG(ctx, bs, block)
}
