package net

import (
	"context"
	"errors"
	"strings"
	"time"

	"github.com/ipfs/boxo/blockservice"
	"github.com/ipfs/boxo/exchange"
	"github.com/libp2p/go-libp2p/core/host"
	libpeer "github.com/libp2p/go-libp2p/core/peer"
	"google.golang.org/grpc"
	grpcpeer "google.golang.org/grpc/peer"

	"github.com/sourcenetwork/defradb/event"
	"github.com/sourcenetwork/defradb/internal/datastore"
)

// newOf allocates a value of the type a pointer field has (the field's type differs between the
// plain and the scheduler build: sync.Mutex vs its scheduling shim).
func newOf[T any](_ *T) *T { return new(T) }

// VerifTransport decides what a push to peer `to` meets: nil = unreachable.
type VerifTransport func(to libpeer.ID) *Peer

// VerifNewPeer assembles a Peer around a host that never listens: no pubsub, DHT, bitswap or gRPC
// server. Every client.Invoke of the peer is intercepted and delivered synchronously to the real
// handler of the target peer chosen by transport (or fails when the target is unreachable).
// The caller starts VerifMessageLoop; the retry loop body is VerifRetryTick.
func VerifNewPeer(
	ctx context.Context,
	db DB,
	bus event.Bus,
	h host.Host,
	ex exchange.Interface,
	retry []time.Duration,
	transport VerifTransport,
) (*Peer, error) {
	ctx, cancel := context.WithCancel(ctx)
	p := &Peer{host: h, ctx: ctx, cancel: cancel, bus: bus, db: db, retryIntervals: retry}
	p.handleRetryMutex = newOf(p.handleRetryMutex)
	var err error
	p.updateSub, err = bus.Subscribe(event.UpdateName, event.ReplicatorName)
	if err != nil {
		cancel()
		return nil, err
	}
	intercept := grpc.WithUnaryInterceptor(func(
		ictx context.Context, method string, req, reply any, cc *grpc.ClientConn, _ grpc.UnaryInvoker, _ ...grpc.CallOption,
	) error {
		to, err := libpeer.Decode(strings.TrimPrefix(cc.Target(), "passthrough:"))
		if err != nil {
			return err
		}
		dst := transport(to)
		if dst == nil {
			return errors.New("verif transport: peer unreachable")
		}
		rctx := grpcpeer.NewContext(dst.ctx, &grpcpeer.Peer{Addr: addr{h.ID()}})
		switch method {
		case servicePushLogName:
			r, ok := req.(pushLogRequest)
			if !ok {
				return errors.New("verif transport: unexpected request type")
			}
			_, err := dst.server.pushLogHandler(rctx, &r)
			return err
		default:
			return errors.New("verif transport: method not carried: " + method)
		}
	})
	p.server, err = newServer(p, intercept)
	if err != nil {
		cancel()
		return nil, err
	}
	p.blockService = blockservice.New(datastore.BlockstoreFrom(db.Rootstore()), ex)
	if err := p.loadAndPublishReplicators(ctx); err != nil {
		cancel()
		return nil, err
	}
	if err := p.loadAndPublishP2PCollections(ctx); err != nil {
		cancel()
		return nil, err
	}
	return p, nil
}

// VerifMessageLoop is the real handleMessageLoop (update events -> pushes to replicators).
func (p *Peer) VerifMessageLoop() { p.handleMessageLoop() }

// VerifRetryTick is one iteration of the retry loop (the timer itself is not run).
func (p *Peer) VerifRetryTick(ctx context.Context) { p.retryReplicators(ctx) }

// VerifStop releases the subscription of an assembled peer (its host is reused).
func (p *Peer) VerifStop() {
	p.cancel()
	p.bus.Unsubscribe(p.updateSub)
}

// VerifReplicators renders the in-memory routing table.
func (p *Peer) VerifReplicators() map[string][]string {
	out := map[string][]string{}
	p.server.mu.Lock()
	defer p.server.mu.Unlock()
	for col, m := range p.server.replicators {
		for id := range m {
			out[col] = append(out[col], id.String())
		}
	}
	return out
}
