package checks

import (
	"encoding/json"
	"fmt"
	"os"
	"runtime"
	"sort"
	"time"

	"github.com/sourcenetwork/defradb/internal/verifh/crdtx"
	"github.com/sourcenetwork/defradb/internal/verifh/rep"
)

func init() {
	Register("C01", func(a []string) int { return runCRDT("C01", a) })
	Register("C02", func(a []string) int { return runCRDT("C02", a) })
	Register("C04", func(a []string) int { return runCRDT("C04", a) })
}

const crdtSDL = `type User { name: String  c: Int @crdt(type: pncounter) }`

var crdtOps = []crdtx.OpKind{
	{Name: "inc", Field: "c", Kind: "inc"},
	{Name: "set", Field: "name", Kind: "set"},
	{Name: "null", Field: "name", Kind: "null"},
	{Name: "del", Kind: "del"},
}

type crdtScenario struct {
	Name string
	Cfg  crdtx.Config
}

func crdtScenarios(tier string) []crdtScenario {
	base := crdtx.Config{SDL: crdtSDL, Coll: "User", Ops: crdtOps, Registers: []string{"name"}, Counters: []string{"c"}, Workers: runtime.NumCPU()}
	mk := func(name string, n, l int, pre bool, mod func(*crdtx.Config)) crdtScenario {
		c := base
		c.N, c.L, c.PreCreate = n, l, pre
		if !pre {
			c.Ops = append([]crdtx.OpKind{{Name: "create", Kind: "create"}}, crdtOps...)
		}
		if mod != nil {
			mod(&c)
		}
		return crdtScenario{name, c}
	}
	indexed := func(c *crdtx.Config) {
		c.SDL = `type User { name: String @index  c: Int @crdt(type: pncounter) }`
		c.IndexProbe = "name"
	}
	lateReceiver := func(c *crdtx.Config) {
		c.Writers = 2
		c.Ops = []crdtx.OpKind{{Name: "create", Kind: "create"}, {Name: "inc", Field: "c", Kind: "inc"}, {Name: "set", Field: "name", Kind: "set"}}
	}
	if tier == "thorough" {
		return []crdtScenario{
			mk("two writers and a late receiver N=3 L=4 with create", 3, 4, false, lateReceiver),
			mk("plain N=2 L=4 pre-created", 2, 4, true, nil),
			mk("plain N=3 L=3 pre-created", 3, 3, true, nil),
			mk("plain N=2 L=3 with create", 2, 3, false, nil),
			mk("indexed register N=2 L=4 pre-created", 2, 4, true, indexed),
			// deep DAG shapes (a merge commit next to a head with its own ancestors need 3 writers and 5
			// commits): one operation kind only, so that the depth stays affordable
			mk("counter only N=3 L=5 pre-created", 3, 5, true, func(c *crdtx.Config) {
				c.Ops = []crdtx.OpKind{{Name: "inc", Field: "c", Kind: "inc"}}
			}),
		}
	}
	return []crdtScenario{
		mk("plain N=2 L=4 pre-created", 2, 4, true, nil),
		mk("plain N=2 L=2 with create", 2, 2, false, nil),
		mk("indexed register N=2 L=3 pre-created", 2, 3, true, indexed),
		// a node that lags behind and receives several generations (a fork and its merge) in one merge
		mk("two writers and a late receiver N=3 L=4 with create", 3, 4, false, lateReceiver),
	}
}

func runCRDT(prop string, args []string) int {
	if len(args) >= 2 && args[0] == "replay" {
		return replayCRDT(prop, args[1])
	}
	r := rep.New(prop, "model_checking")
	tier := rep.Tier()
	variants := 3
	budget := 16 * time.Minute
	if tier == "thorough" {
		variants = 8
		budget = 35 * time.Minute
	}
	var states, trans, merges, selfloops, validated int
	outcomes := map[string]struct{}{}
	exhaustive := true
	var perScenario []map[string]any
	classes := map[string]crdtx.Viol{}
	scs := crdtScenarios(tier)
	end := time.Now().Add(budget)
	for si, sc := range scs {
		// every scenario gets an equal share of what is left of the time budget (a scenario that ends
		// early passes the rest of its share on)
		deadline := time.Now().Add(time.Until(end) / time.Duration(len(scs)-si))
		for v := 0; v < variants; v++ {
			cfg := sc.Cfg
			cfg.Variant = v + rep.Seed()*1000
			cfg.Deadline = deadline
			e := &crdtx.Explorer{Cfg: cfg, Check: crdtx.StdCheck}
			t0 := time.Now()
			if err := e.Run(); err != nil {
				rep.HarnessError("%s variant %d: %v", sc.Name, v, err)
			}
			states += e.Stats.States
			trans += e.Stats.Transitions
			merges += e.Stats.MergeCalls
			selfloops += e.Stats.SelfLoops
			for o := range e.Stats.Outcomes {
				outcomes[o] = struct{}{}
			}
			if !e.Stats.Exhaustive {
				exhaustive = false
			}
			perScenario = append(perScenario, map[string]any{"scenario": sc.Name, "variant": cfg.Variant, "states": e.Stats.States,
				"transitions": e.Stats.Transitions, "max_depth": e.Stats.MaxDepth, "exhaustive": e.Stats.Exhaustive, "wall_s": time.Since(t0).Seconds()})
			for _, p := range e.Samples() {
				r.Sample(map[string]any{"scenario": sc.Name, "variant": cfg.Variant, "path": p})
			}
			// violations: one representative (shortest path) per class and property
			sort.SliceStable(e.Viols, func(i, j int) bool { return len(e.Viols[i].Path) < len(e.Viols[j].Path) })
			for _, vi := range e.Viols {
				if vi.Prop != prop {
					continue
				}
				if _, ok := classes[vi.Fingerprint]; ok {
					continue
				}
				// no alarm without the real store: replay twice on badger, must reproduce both times
				ok := true
				for k := 0; k < 2; k++ {
					vs, _, err := crdtx.ReplayAfter(cfg, vi.OtherPath, vi.Path, true)
					if err != nil {
						rep.HarnessError("replay of %v on badger: %v", vi.Path, err)
					}
					found := false
					for _, x := range vs {
						if x.Fingerprint == vi.Fingerprint {
							found = true
						}
					}
					ok = ok && found
				}
				if !ok {
					rep.HarnessError("violation %s found over vkv does not reproduce on badger in-memory: path %v (%s)", vi.Fingerprint, vi.Path, vi.Detail)
				}
				classes[vi.Fingerprint] = vi
				r.Violation(rep.Violation{Fingerprint: vi.Fingerprint, Summary: vi.Detail,
					Replay: map[string]any{"engine": "crdtx", "scenario": sc.Name, "config": cfgJSON(cfg), "path": vi.Path, "other_path": vi.OtherPath}})
			}
			// trace validation: replay sampled paths on badger and compare the observables
			for _, p := range e.Samples() {
				vs, fin, err := crdtx.Replay(cfg, p, true)
				if err != nil {
					rep.HarnessError("trace validation on badger: %v", err)
				}
				vs2, fin2, err := crdtx.Replay(cfg, p, false)
				if err != nil {
					rep.HarnessError("trace validation on vkv: %v", err)
				}
				if len(vs) != len(vs2) || fmt.Sprint(fin) != fmt.Sprint(fin2) {
					rep.HarnessError("device divergence: path %v gives %v on badger and %v on vkv", p, fin, fin2)
				}
				validated++
			}
		}
	}
	r.Coverage["states"] = states
	r.Coverage["transitions"] = trans
	r.Coverage["merge_calls"] = merges
	r.Coverage["redelivery_self_loops"] = selfloops
	r.Coverage["traces_validated_against_impl"] = validated
	r.Coverage["distinct_outcomes"] = len(outcomes)
	r.Coverage["exhaustive"] = exhaustive
	r.Coverage["runs"] = perScenario
	r.Coverage["variants"] = variants
	r.Coverage["explanation"] = "explicit-state BFS over real db.DB replicas on the vkv device; every state = full store content of all nodes; transitions = real GraphQL mutations and real syncDAG+executeMerge deliveries; oracles evaluated on the changed node after every transition"
	if !exhaustive {
		r.Coverage["cap"] = fmt.Sprintf("time budget %s reached; scenarios listed with exhaustive=false were cut", budget)
	}
	r.Assumptions = []string{
		"vkv device models badger's transaction contract (conformance suite + sampled traces replayed on badger in-memory)",
		"randomness owned through crypto/rand.Reader, keyed by (variant,node,local op index)",
		"delivery = syncDAG over an exchange serving the sender's blocks + synchronous executeMerge (libp2p/gRPC not started)",
	}
	return r.Finish()
}

func cfgJSON(c crdtx.Config) map[string]any {
	return map[string]any{"N": c.N, "L": c.L, "Variant": c.Variant, "SDL": c.SDL, "Coll": c.Coll, "PreCreate": c.PreCreate, "PostSchema": c.PostSchema}
}

func replayCRDT(prop, file string) int {
	b, err := os.ReadFile(file)
	if err != nil {
		rep.HarnessError("%v", err)
	}
	var f struct {
		Fingerprint string
		Replay      struct {
			Config struct {
				N, L, Variant int
				SDL, Coll     string
				PreCreate     bool
				PostSchema    []string
			}
			Path      []string
			OtherPath []string `json:"other_path"`
		}
	}
	if err := json.Unmarshal(b, &f); err != nil {
		rep.HarnessError("%v", err)
	}
	c := f.Replay.Config
	cfg := crdtx.Config{N: c.N, L: c.L, Variant: c.Variant, SDL: c.SDL, Coll: c.Coll, PreCreate: c.PreCreate, PostSchema: c.PostSchema,
		Ops: crdtOps, Registers: []string{"name"}, Counters: []string{"c"}}
	if !c.PreCreate {
		cfg.Ops = append([]crdtx.OpKind{{Name: "create", Kind: "create"}}, crdtOps...)
	}
	vs, fin, err := crdtx.ReplayAfter(cfg, f.Replay.OtherPath, f.Replay.Path, true)
	if err != nil {
		rep.HarnessError("%v", err)
	}
	fmt.Println("final observables:", fin)
	code := 0
	for _, v := range vs {
		fmt.Printf("reproduced %s: %s\n", v.Fingerprint, v.Detail)
		if v.Fingerprint == f.Fingerprint {
			code = 1
		}
	}
	return code
}
