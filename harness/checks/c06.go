package checks

import (
	"time"
	"context"
	"errors"
	"fmt"
	"runtime"
	"sort"
	"strings"
	"sync"

	"github.com/sourcenetwork/corekv"

	"github.com/sourcenetwork/defradb/client"
	"github.com/sourcenetwork/defradb/internal/db"
	"github.com/sourcenetwork/defradb/internal/verifh/rep"
	"github.com/sourcenetwork/defradb/internal/verifh/vkv"
	"github.com/sourcenetwork/defradb/internal/verifh/world"
)

func init() { Register("C06", runC06) }

// ---- reference model: snapshot isolation over a map of documents ----

type mdoc struct {
	s       string
	c       int64
	deleted bool
}

type mstate map[string]mdoc // by document name (d0, d1, n1, n2)

func (m mstate) clone() mstate {
	o := mstate{}
	for k, v := range m {
		o[k] = v
	}
	return o
}

func (m mstate) canon() string {
	var ks []string
	for k, v := range m {
		if !v.deleted {
			ks = append(ks, fmt.Sprintf("%s:s=%s,c=%d", k, v.s, v.c))
		}
	}
	sort.Strings(ks)
	return strings.Join(ks, " ")
}

type mtxn struct {
	snap     mstate
	writes   mstate          // own view = snap overlaid
	touched  map[string]bool // documents modified
	startSeq int
	done     bool
}

type c06op struct {
	kind string // begin q qall upd inc create del commit discard
	doc  string
}

func (o c06op) String() string {
	if o.doc != "" {
		return o.kind + "(" + o.doc + ")"
	}
	return o.kind
}

type c06env struct {
	ctx  context.Context
	dev  world.Dev
	db   *db.DB
	base vkv.Snap
	ids  map[string]string // name -> docID (d0,d1 fixed; n<t> computed by content)
	col  client.Collection
}

const c06SDL = `type T { name: String  s: String  c: Int @crdt(type: pcounter) }`

func newC06Env(badger bool) (*c06env, error) {
	ctx := context.Background()
	var dev world.Dev = vkv.NewStore()
	if badger {
		b, err := world.NewBadgerDev(ctx)
		if err != nil {
			return nil, err
		}
		dev = b
	}
	d, err := world.NewDB(ctx, dev)
	if err != nil {
		return nil, err
	}
	if _, err := d.AddSchema(ctx, c06SDL); err != nil {
		return nil, err
	}
	e := &c06env{ctx: ctx, dev: dev, db: d, ids: map[string]string{}}
	for _, n := range []string{"d0", "d1"} {
		data, errs := world.Exec(ctx, d, fmt.Sprintf(`mutation { create_T(input: {name: %q, s: "init", c: 1}) { _docID } }`, n))
		if len(errs) > 0 {
			return nil, fmt.Errorf("%v", errs)
		}
		e.ids[n] = world.Rows(data, "create_T")[0]["_docID"].(string)
	}
	e.base = dev.Snapshot()
	return e, nil
}

func rowsToState(rows []map[string]any) string {
	var ks []string
	for _, r := range rows {
		ks = append(ks, fmt.Sprintf("%v:s=%v,c=%v", r["name"], r["s"], r["c"]))
	}
	sort.Strings(ks)
	return strings.Join(ks, " ")
}

type c06result struct {
	viol, detail string
	spurious     int
	outcome      string
}

// runSchedule executes one interleaving of the transaction scripts against the real database and the
// model in lock step. sched is a sequence of transaction indexes; scripts[t] is consumed in order.
func (e *c06env) runSchedule(scripts [][]c06op, sched []int, style int) c06result {
	e.dev.Restore(e.base)
	committed := mstate{"d0": {s: "init", c: 1}, "d1": {s: "init", c: 1}}
	seq := 0
	commitSeq := map[string]int{} // doc -> seq of last commit that modified it
	mt := make([]*mtxn, len(scripts))
	rt := make([]client.Txn, len(scripts))
	pos := make([]int, len(scripts))
	var res c06result
	var trace []string
	fail := func(class, f string, a ...any) c06result {
		res.viol, res.detail = class, fmt.Sprintf(f, a...)+" | trace: "+strings.Join(trace, "; ")
		for _, t := range rt {
			if t != nil {
				t.Discard(e.ctx)
			}
		}
		return res
	}
	exec := func(t int, req string) ([]map[string]any, []string, string) {
		var r *client.RequestResult
		if style == 0 {
			r = rt[t].ExecRequest(e.ctx, req)
		} else {
			r = e.db.ExecRequest(db.InitContext(e.ctx, rt[t]), req)
		}
		var errs []string
		for _, x := range r.GQL.Errors {
			errs = append(errs, x.Error())
		}
		name := "T"
		for _, p := range []string{"create_T", "update_T", "delete_T"} {
			if strings.Contains(req, p) {
				name = p
			}
		}
		return world.Rows(r.GQL.Data, name), errs, name
	}
	for _, t := range sched {
		op := scripts[t][pos[t]]
		pos[t]++
		trace = append(trace, fmt.Sprintf("T%d.%s", t+1, op))
		switch op.kind {
		case "begin", "beginro":
			tx, err := e.db.NewTxn(e.ctx, op.kind == "beginro")
			if err != nil {
				return fail("harness", "NewTxn: %v", err)
			}
			rt[t] = tx
			mt[t] = &mtxn{snap: committed.clone(), writes: committed.clone(), touched: map[string]bool{}, startSeq: seq}
		case "q", "qall":
			req := `query { T { name s c } }`
			if op.kind == "q" {
				req = fmt.Sprintf(`query { T(docID: %q) { name s c } }`, e.ids[op.doc])
			}
			rows, errs, _ := exec(t, req)
			if len(errs) > 0 {
				return fail("read-error", "read inside T%d failed: %v", t+1, errs)
			}
			want := mt[t].writes.canon()
			if op.kind == "q" {
				one := mstate{}
				if d, ok := mt[t].writes[op.doc]; ok {
					one[op.doc] = d
				}
				want = one.canon()
			}
			if got := rowsToState(rows); got != want {
				return fail("read-not-snapshot-plus-own-writes", "T%d read %q, snapshot at its start plus its own writes is %q", t+1, got, want)
			}
		case "upd", "inc", "del", "create":
			var req string
			m := mt[t]
			cur, exists := m.writes[op.doc]
			live := exists && !cur.deleted
			switch op.kind {
			case "upd":
				req = fmt.Sprintf(`mutation { update_T(docID: %q, input: {s: "t%d"}) { name } }`, e.ids[op.doc], t+1)
			case "inc":
				req = fmt.Sprintf(`mutation { update_T(docID: %q, input: {c: %d}) { name } }`, e.ids[op.doc], 10*(t+1))
			case "del":
				req = fmt.Sprintf(`mutation { delete_T(docID: %q) { name } }`, e.ids[op.doc])
			case "create":
				req = fmt.Sprintf(`mutation { create_T(input: {name: %q, s: "new", c: 1}) { name _docID } }`, op.doc)
			}
			rows, errs, _ := exec(t, req)
			switch op.kind {
			case "create":
				if exists {
					// already created in this view (same content => same docID): must be refused
					if len(errs) == 0 {
						return fail("duplicate-create-accepted", "T%d created %s twice", t+1, op.doc)
					}
				} else {
					if len(errs) > 0 {
						return fail("write-error", "T%d create failed: %v", t+1, errs)
					}
					if len(rows) == 1 {
						e.ids[op.doc], _ = rows[0]["_docID"].(string)
					}
					m.writes[op.doc] = mdoc{s: "new", c: 1}
					m.touched[op.doc] = true
				}
			default:
				if !live {
					if len(rows) != 0 && len(errs) == 0 {
						return fail("write-to-invisible-doc", "T%d %s affected %d rows although the document is not visible in its view", t+1, op, len(rows))
					}
				} else {
					if len(errs) > 0 {
						return fail("write-error", "T%d %s failed: %v", t+1, op, errs)
					}
					if len(rows) != 1 {
						return fail("write-missed", "T%d %s affected %d rows", t+1, op, len(rows))
					}
					switch op.kind {
					case "upd":
						cur.s = fmt.Sprintf("t%d", t+1)
					case "inc":
						cur.c += int64(10 * (t + 1))
					case "del":
						cur.deleted = true
					}
					m.writes[op.doc] = cur
					m.touched[op.doc] = true
				}
			}
		case "commit":
			err := rt[t].Commit(e.ctx)
			m := mt[t]
			m.done = true
			mustConflict := false
			for d := range m.touched {
				if commitSeq[d] > m.startSeq {
					mustConflict = true
				}
			}
			switch {
			case err == nil && mustConflict:
				return fail("lost-update-both-committed", "T%d committed although a transaction that committed after its start modified the same document", t+1)
			case err != nil && !errors.Is(err, corekv.ErrTxnConflict) && !strings.Contains(err.Error(), "conflict"):
				return fail("commit-error-not-conflict", "T%d commit failed with %v", t+1, err)
			case err != nil && !mustConflict:
				res.spurious++
			}
			if err == nil {
				seq++
				for d := range m.touched {
					committed[d] = m.writes[d]
					commitSeq[d] = seq
				}
			}
			rt[t] = nil
		case "discard":
			rt[t].Discard(e.ctx)
			mt[t].done = true
			rt[t] = nil
		}
		// outside, non-transactional read after every step: exactly the committed state
		data, errs := world.Exec(e.ctx, e.db, `query { T { name s c } }`)
		if len(errs) > 0 {
			return fail("outside-read-error", "%v", errs)
		}
		if got, want := rowsToState(world.Rows(data, "T")), committed.canon(); got != want {
			return fail("outside-read-not-committed-state", "after T%d.%s a non-transactional read returns %q, committed state is %q", t+1, op, got, want)
		}
	}
	res.outcome = committed.canon()
	return res
}

func c06Scripts(m int, alphabet []c06op) [][]c06op {
	var out [][]c06op
	var rec func(cur []c06op)
	rec = func(cur []c06op) {
		if len(cur) == m {
			for _, end := range []string{"commit", "discard"} {
				s := append([]c06op{{kind: "begin"}}, cur...)
				out = append(out, append(s, c06op{kind: end}))
			}
			return
		}
		for _, a := range alphabet {
			rec(append(append([]c06op{}, cur...), a))
		}
	}
	rec(nil)
	return out
}

// interleavings of scripts with the given lengths (sequences of txn indexes)
func c06Interleavings(lens []int) [][]int {
	var out [][]int
	rem := append([]int{}, lens...)
	var cur []int
	var rec func()
	rec = func() {
		done := true
		for t := range rem {
			if rem[t] > 0 {
				done = false
				rem[t]--
				cur = append(cur, t)
				rec()
				cur = cur[:len(cur)-1]
				rem[t]++
			}
		}
		if done {
			out = append(out, append([]int{}, cur...))
		}
	}
	rec()
	return out
}

func runC06(args []string) int {
	r := rep.New("C06", "exploration")
	tier := rep.Tier()
	alpha := func(t int) []c06op {
		return []c06op{{"q", "d0"}, {"qall", ""}, {"upd", "d0"}, {"upd", "d1"}, {"inc", "d0"}, {"del", "d0"}, {"create", "n"}}
	}
	type plan struct {
		name    string
		scripts [][][]c06op // per transaction: list of scripts
	}
	var plans []plan
	a := alpha(0)
	pick := func(ix ...int) []c06op {
		var o []c06op
		for _, i := range ix {
			o = append(o, a[i])
		}
		return o
	}
	commitOnly := func(ss [][]c06op) [][]c06op {
		var o [][]c06op
		for _, s := range ss {
			if s[len(s)-1].kind == "commit" {
				o = append(o, s)
			}
		}
		return o
	}
	if tier == "thorough" {
		plans = append(plans, plan{"2 txns: m=2 x m=1 (full alphabet)", [][][]c06op{c06Scripts(2, a), c06Scripts(1, a)}})
		plans = append(plans, plan{"2 txns: m=2 x m=2 (reduced alphabet)", [][][]c06op{c06Scripts(2, pick(0, 2, 4, 5, 6)), c06Scripts(2, pick(1, 2, 3, 5))}})
		plans = append(plans, plan{"3 txns: m=1 each", [][][]c06op{c06Scripts(1, pick(2, 4, 5)), c06Scripts(1, pick(2, 4, 6)), c06Scripts(1, pick(1, 2, 5))}})
	} else {
		plans = append(plans, plan{"2 txns: m=2 x m=1", [][][]c06op{c06Scripts(2, pick(0, 2, 4, 5, 6)), c06Scripts(1, pick(1, 2, 3, 4, 5, 6))}})
		plans = append(plans, plan{"3 txns: m=1 each (writes)", [][][]c06op{commitOnly(c06Scripts(1, pick(2, 4))), commitOnly(c06Scripts(1, pick(2, 4))), c06Scripts(1, pick(2, 5))}})
	}
	// a read-only transaction (NewTxn(ctx, true)) reading twice while a writing transaction commits
	var roScripts [][]c06op
	for _, r1 := range []c06op{{"q", "d0"}, {"qall", ""}} {
		for _, r2 := range []c06op{{"q", "d0"}, {"qall", ""}, {"q", "n"}} {
			for _, end := range []string{"commit", "discard"} {
				roScripts = append(roScripts, []c06op{{kind: "beginro"}, r1, r2, {kind: end}})
			}
		}
	}
	plans = append(plans, plan{"read-only txn (2 reads) x writing txn m=1", [][][]c06op{roScripts, commitOnly(c06Scripts(1, pick(2, 4, 5, 6)))}})
	type job struct {
		scripts [][]c06op
		sched   []int
		style   int
	}
	var mu sync.Mutex
	execs, spurious := 0, 0
	outcomes := map[string]struct{}{}
	// the thorough plans are large: an internal budget ends the enumeration with exhaustive=false
	// and the list of plans completed, never with a verdict
	deadline := time.Now().Add(30 * time.Minute)
	truncated := false
	var plansDone []string
	for pass, badger := range []bool{true, false} {
		for _, p := range plans {
			if truncated {
				break
			}
			var combos [][][]c06op
			var rec func(i int, cur [][]c06op)
			rec = func(i int, cur [][]c06op) {
				if i == len(p.scripts) {
					combos = append(combos, append([][]c06op{}, cur...))
					return
				}
				for _, s := range p.scripts[i] {
					rec(i+1, append(cur, s))
				}
			}
			rec(0, nil)
			jobs := make(chan job, 1024)
			var wg sync.WaitGroup
			for w := 0; w < runtime.NumCPU(); w++ {
				wg.Add(1)
				go func() {
					defer wg.Done()
					e, err := newC06Env(badger)
					if err != nil {
						rep.HarnessError("%v", err)
					}
					defer e.db.Close()
					for j := range jobs {
						res := e.runSchedule(j.scripts, j.sched, j.style)
						mu.Lock()
						execs++
						spurious += res.spurious
						if res.outcome != "" {
							outcomes[fmt.Sprint(j.scripts)+"=>"+res.outcome] = struct{}{}
						}
						mu.Unlock()
						if res.viol == "harness" {
							rep.HarnessError("%s", res.detail)
						}
						if res.viol != "" {
							// replay twice before reporting
							r2 := e.runSchedule(j.scripts, j.sched, j.style)
							r3 := e.runSchedule(j.scripts, j.sched, j.style)
							if r2.viol != res.viol || r3.viol != res.viol {
								rep.HarnessError("violation %s does not reproduce: %s", res.viol, res.detail)
							}
							store := "vkv"
							if badger {
								store = "badger"
							}
							r.Violation(rep.Violation{Fingerprint: "C06:" + res.viol, Summary: fmt.Sprintf("[%s, style %d] %s", store, j.style, res.detail),
								Replay: map[string]any{"engine": "txnx", "store": store, "scripts": fmt.Sprint(j.scripts), "schedule": j.sched, "style": j.style}})
						}
					}
				}()
			}
			lens := make([]int, len(p.scripts))
			n := 0
			for _, c := range combos {
				for i := range c {
					lens[i] = len(c[i])
				}
				if time.Now().After(deadline) {
					truncated = true
					break
				}
				for _, sched := range c06Interleavings(lens) {
					style := n % 2
					if pass == 1 && n%3 != 0 && tier != "thorough" {
						n++
						continue // the vkv pass is a second, thinner pass
					}
					jobs <- job{c, sched, style}
					if n%5003 == 0 {
						var tr []string
						pos := make([]int, len(c))
						for _, t := range sched {
							tr = append(tr, fmt.Sprintf("T%d.%s", t+1, c[t][pos[t]]))
							pos[t]++
						}
						r.Sample(map[string]any{"plan": p.name, "schedule": strings.Join(tr, "; ")})
					}
					n++
				}
			}
			close(jobs)
			wg.Wait()
			if !truncated {
				plansDone = append(plansDone, fmt.Sprintf("%s on %s", p.name, map[bool]string{true: "badger", false: "vkv"}[badger]))
			}
		}
	}
	r.Coverage["evaluations"] = execs
	r.Coverage["distinct_nontrivial"] = len(outcomes)
	r.Coverage["rule"] = "one evaluation = one complete interleaving of the steps (begin, operations, commit/discard) of 2-3 explicit transactions, executed on the real database with a non-transactional read after every step, in lock step with a snapshot-isolation model; distinct_nontrivial = distinct (scripts, final committed state)"
	r.Coverage["spurious_conflicts"] = spurious
	r.Coverage["stores"] = []string{"badger in-memory (deciding pass)", "vkv (second pass)"}
	r.Coverage["exhaustive"] = !truncated
	r.Coverage["plans_completed"] = plansDone
	r.Assumptions = []string{"a conflict error on a commit that the model does not require is not a violation (counted as spurious)", "isolation is delegated to the key-value store: the deciding pass runs on badger in-memory"}
	return r.Finish()
}
