package checks

// C19 — schema evolution never alters existing data (DESIGN.md §4 C19).
//
// Part 1 (one node): every history up to the bound over {create / update / delete a document,
// patch the schema by adding a field (made default or not), switch the active version to any known
// version}; after every step every document ever written must be returned under the active version
// with exactly the last written value of every field that version knows (null for a field the
// document never got), the same identifier and the same commit history as before a patch or switch.
// Part 2 (two nodes): explicit-state search over two real nodes that start on the same schema,
// patch it independently (same patch, different times) and exchange every commit: no merge may
// fail, and two nodes holding the same commits agree on every field both active versions know.

import (
	"context"
	"encoding/json"
	"fmt"
	"os"
	"runtime"
	"sort"
	"strings"
	"sync"
	"sync/atomic"

	cid "github.com/ipfs/go-cid"
	"github.com/sourcenetwork/lens/host-go/config/model"
	"github.com/sourcenetwork/immutable"

	"github.com/sourcenetwork/defradb/client"
	"github.com/sourcenetwork/defradb/internal/db"
	"github.com/sourcenetwork/defradb/internal/verifh/crdtx"
	"github.com/sourcenetwork/defradb/internal/verifh/rep"
	"github.com/sourcenetwork/defradb/internal/verifh/vkv"
	"github.com/sourcenetwork/defradb/internal/verifh/world"
)

func init() { Register("C19", runC19) }

const c19SDL = `type U { name: String  n: Int  c: Int @crdt(type: pncounter) }`

type c19Op struct {
	Kind string // create update delete patch patch-inactive switch
	Arg  int    // document number / added field number / version index
}

func (o c19Op) String() string { return fmt.Sprintf("%s(%d)", o.Kind, o.Arg) }

type c19Version struct {
	ID     string
	Fields []string // added fields known to this version (e1, e2)
}

type c19DocModel struct {
	ID      string
	Deleted bool
	Vals    map[string]any // last written value per field
	Counter int64
}

type c19Model struct {
	Versions []c19Version
	Active   int
	Docs     map[int]*c19DocModel
	NextE    int
	Indexed  []string // fields that carry a secondary index, in creation order
	// IndexOn[f][v]: version v carries the index on f (the version it was created under and the versions
	// patched from a version that carried it); LastWrite[d]: version active when document d was last written
	IndexOn   map[string]map[int]bool
	LastWrite map[int]int
}

func (m *c19Model) activeHas(f string) bool {
	for _, x := range m.Versions[m.Active].Fields {
		if x == f {
			return true
		}
	}
	return false
}

var c19Added = []struct{ Name, Kind string }{{"e1", "String"}, {"e2", "Int"}}

func c19PatchJSON(k int) string {
	return fmt.Sprintf(`[{"op": "add", "path": "/U/Fields/-", "value": {"Name": %q, "Kind": %q}}]`, c19Added[k].Name, c19Added[k].Kind)
}

type c19Node struct {
	st    *vkv.Store
	db    *db.DB
	colID string
}

func newC19Node() (*c19Node, error) {
	ctx := context.Background()
	st := vkv.NewStore()
	d, err := world.NewDB(ctx, st)
	if err != nil {
		return nil, err
	}
	cols, err := d.AddSchema(ctx, c19SDL)
	if err != nil {
		return nil, err
	}
	return &c19Node{st: st, db: d, colID: cols[0].CollectionID}, nil
}

// reopen closes the database, makes sn the store content and opens a new database on it.
func (n *c19Node) reopen(sn vkv.Snap) error {
	n.db.Close()
	n.st.Restore(sn)
	d, err := world.NewDB(context.Background(), n.st)
	if err != nil {
		return err
	}
	n.db = d
	return nil
}

func (n *c19Node) versions(ctx context.Context) (map[string]bool, string, error) {
	cols, err := n.db.GetCollections(ctx, client.CollectionFetchOptions{IncludeInactive: immutable.Some(true)})
	if err != nil {
		return nil, "", err
	}
	out := map[string]bool{}
	active := ""
	for _, c := range cols {
		if c.Name() != "U" {
			continue
		}
		out[c.Version().VersionID] = c.Version().IsActive
		if c.Version().IsActive {
			active = c.Version().VersionID
		}
	}
	return out, active, nil
}

type c19Stats struct {
	histories, steps, docChecks, patchOrSwitch, rejected int64
	states, transitions, merges, agreeChecks            int64
	outcomes                                            sync.Map
}

func runC19(args []string) int {
	r := rep.New("C19", "model_checking")
	if len(args) >= 2 && args[0] == "replay" {
		return c19ReplayCmd(r, args[1])
	}
	thorough := rep.Tier() == "thorough"
	st := &c19Stats{}
	H := 4
	if thorough {
		H = 5
	}
	if err := c19Single(r, st, H); err != nil {
		rep.HarnessError("C19 single node: %v", err)
	}
	L := 4
	if thorough {
		L = 5
	}
	if err := c19Pair(r, st, L); err != nil {
		rep.HarnessError("C19 two nodes: %v", err)
	}
	no := 0
	st.outcomes.Range(func(k, v any) bool { no++; return true })
	r.Coverage["states"] = st.states
	r.Coverage["transitions"] = st.transitions
	r.Coverage["traces_validated_against_impl"] = st.histories
	r.Coverage["single_node_histories"] = st.histories
	r.Coverage["single_node_steps"] = st.steps
	r.Coverage["document_reads_compared_with_model"] = st.docChecks
	r.Coverage["patch_or_switch_steps_with_before_after_dump"] = st.patchOrSwitch
	r.Coverage["schema_operations_rejected_by_the_database"] = st.rejected
	r.Coverage["two_node_merges"] = st.merges
	r.Coverage["two_node_agreement_checks"] = st.agreeChecks
	r.Coverage["distinct_outcomes"] = no
	r.Coverage["bounds"] = fmt.Sprintf("single node: histories of <=%d operations over 2 documents, 2 added fields, all known versions; two nodes: <=%d local operations + patches, deliveries unbounded (fixpoint)", H, L)
	r.Coverage["exhaustive"] = true
	r.Assumptions = []string{
		"states of the two-node search are the full store contents of both nodes (vkv); the in-memory schema state is rebuilt by re-opening each node on its store before every transition",
		"patches only add fields (String, Int); lens migrations are not in the alphabet",
		"every single-node history is executed on the real database (it is its own trace)",
	}
	return r.Finish()
}

// ---------- part 1 ----------

func c19Alphabet(m *c19Model) []c19Op {
	var ops []c19Op
	for i := 0; i < 2; i++ {
		if d, ok := m.Docs[i]; !ok {
			ops = append(ops, c19Op{"create", i})
			break // documents are created in order (symmetry)
		} else if !d.Deleted {
			ops = append(ops, c19Op{"update", i}, c19Op{"delete", i})
		}
	}
	if m.NextE < len(c19Added) {
		ops = append(ops, c19Op{"patch", m.NextE}, c19Op{"patch-inactive", m.NextE})
	}
	for v := range m.Versions {
		if v != m.Active {
			ops = append(ops, c19Op{"switch", v})
		}
	}
	// secondary indexes: one on a field of the first version, one on the first added field (only while the
	// active version knows it) - indexes that predate a patch and indexes created after it must coexist
	has := func(f string) bool {
		for _, x := range m.Indexed {
			if x == f {
				return true
			}
		}
		return false
	}
	if !has("name") {
		ops = append(ops, c19Op{"index", 0})
	}
	if m.activeHas(c19Added[0].Name) && !has(c19Added[0].Name) {
		ops = append(ops, c19Op{"index", 1})
	}
	return ops
}

func c19Single(r *rep.Run, st *c19Stats, H int) error {
	// enumerate all histories by DFS on the model, execute each maximal prefix tree node once
	type item struct{ hist []c19Op }
	var all [][]c19Op
	var rec func(m *c19Model, hist []c19Op)
	rec = func(m *c19Model, hist []c19Op) {
		if len(hist) == H {
			all = append(all, append([]c19Op{}, hist...))
			return
		}
		ops := c19Alphabet(m)
		leaf := true
		for _, o := range ops {
			nm := c19Clone(m)
			c19ModelApply(nm, o, "")
			leaf = false
			rec(nm, append(hist, o))
		}
		if leaf {
			all = append(all, append([]c19Op{}, hist...))
		}
	}
	m0 := &c19Model{Versions: []c19Version{{ID: "v0"}}, Docs: map[int]*c19DocModel{}}
	rec(m0, nil)
	ch := make(chan []c19Op)
	var wg sync.WaitGroup
	var herr atomic.Value
	for w := 0; w < runtime.NumCPU(); w++ {
		wg.Add(1)
		go func() {
			defer wg.Done()
			for h := range ch {
				if err := c19RunHistory(r, st, h); err != nil {
					herr.Store(fmt.Errorf("%v: %w", h, err))
				}
			}
		}()
	}
	for _, h := range all {
		ch <- h
	}
	close(ch)
	wg.Wait()
	if e := herr.Load(); e != nil {
		return e.(error)
	}
	return nil
}

func c19Clone(m *c19Model) *c19Model {
	n := &c19Model{Active: m.Active, NextE: m.NextE, Docs: map[int]*c19DocModel{}, Indexed: append([]string{}, m.Indexed...), IndexOn: map[string]map[int]bool{}, LastWrite: map[int]int{}}
	for f, vs := range m.IndexOn {
		n.IndexOn[f] = map[int]bool{}
		for v, b := range vs {
			n.IndexOn[f][v] = b
		}
	}
	for d, v := range m.LastWrite {
		n.LastWrite[d] = v
	}
	for _, v := range m.Versions {
		n.Versions = append(n.Versions, c19Version{v.ID, append([]string{}, v.Fields...)})
	}
	for i, d := range m.Docs {
		nd := &c19DocModel{ID: d.ID, Deleted: d.Deleted, Counter: d.Counter, Vals: map[string]any{}}
		for k, v := range d.Vals {
			nd.Vals[k] = v
		}
		n.Docs[i] = nd
	}
	return n
}

// c19ModelApply updates the model; newVersion is the id of a version created by a patch.
func c19ModelApply(m *c19Model, o c19Op, newVersion string) {
	if m.IndexOn == nil {
		m.IndexOn = map[string]map[int]bool{}
	}
	if m.LastWrite == nil {
		m.LastWrite = map[int]int{}
	}
	switch o.Kind {
	case "create", "update":
		m.LastWrite[o.Arg] = m.Active
	}
	switch o.Kind {
	case "create":
		d := &c19DocModel{Vals: map[string]any{"name": fmt.Sprintf("d%d", o.Arg), "n": int64(o.Arg)}, Counter: 1}
		for _, f := range m.Versions[m.Active].Fields {
			d.Vals[f] = c19ValueFor(f, 0)
		}
		m.Docs[o.Arg] = d
	case "update":
		d := m.Docs[o.Arg]
		d.Vals["n"] = d.Vals["n"].(int64) + 10
		d.Counter += 5
		for _, f := range m.Versions[m.Active].Fields {
			d.Vals[f] = c19ValueFor(f, int(d.Vals["n"].(int64)))
		}
	case "delete":
		m.Docs[o.Arg].Deleted = true
	case "patch", "patch-inactive":
		v := c19Version{ID: newVersion, Fields: append(append([]string{}, m.Versions[m.Active].Fields...), c19Added[o.Arg].Name)}
		m.Versions = append(m.Versions, v)
		for _, vs := range m.IndexOn {
			if vs[m.Active] {
				vs[len(m.Versions)-1] = true
			}
		}
		m.NextE++
		if o.Kind == "patch" {
			m.Active = len(m.Versions) - 1
		}
	case "switch":
		m.Active = o.Arg
	case "index":
		f := []string{"name", c19Added[0].Name}[o.Arg]
		m.Indexed = append(m.Indexed, f)
		m.IndexOn[f] = map[int]bool{m.Active: true}
	}
}

func c19ValueFor(f string, k int) any {
	if f == "e2" {
		return int64(100 + k)
	}
	return fmt.Sprintf("%s-%d", f, k)
}

func c19Dump(ctx context.Context, d *db.DB) (map[string]string, error) {
	data, errs := world.Exec(ctx, d, `query { U(showDeleted: true) { _docID _deleted name n c _version { cid height } } }`)
	if len(errs) > 0 {
		return nil, fmt.Errorf("dump: %v", errs)
	}
	out := map[string]string{}
	for _, row := range world.Rows(data, "U") {
		out[fmt.Sprint(row["_docID"])] = world.Canon(row)
	}
	data, errs = world.Exec(ctx, d, `query { commits { cid docID fieldName height delta } }`)
	if len(errs) > 0 {
		return nil, fmt.Errorf("commits: %v", errs)
	}
	out["commits"] = world.CanonRowsUnordered(world.Rows(data, "commits"))
	return out, nil
}

func c19RunHistory(r *rep.Run, st *c19Stats, hist []c19Op) error {
	ctx := context.Background()
	atomic.AddInt64(&st.histories, 1)
	n, err := newC19Node()
	if err != nil {
		return err
	}
	defer func() { n.db.Close() }()
	_, v0, err := n.versions(ctx)
	if err != nil {
		return err
	}
	m := &c19Model{Versions: []c19Version{{ID: v0}}, Docs: map[int]*c19DocModel{}}
	viol := func(kind string, step int, detail string) {
		fp := "C19:" + kind + ":" + hist[step].Kind
		if strings.Contains(kind, "document-written-under-a-version-without-the-index") {
			fp = "C19:" + kind // one defect, whatever operation comes next
		}
		r.Violation(rep.Violation{Fingerprint: fp,
			Summary: fmt.Sprintf("history %v step %d (%v): %s", hist, step, hist[step], detail), Replay: map[string]any{"part": "single", "history": hist}})
	}
	for si, o := range hist {
		atomic.AddInt64(&st.steps, 1)
		var before map[string]string
		isSchemaOp := o.Kind == "patch" || o.Kind == "patch-inactive" || o.Kind == "switch"
		if isSchemaOp {
			if before, err = c19Dump(ctx, n.db); err != nil {
				return err
			}
		}
		newVersion := ""
		switch o.Kind {
		case "create":
			vals := map[string]any{"name": fmt.Sprintf("d%d", o.Arg), "n": int64(o.Arg), "c": int64(1)}
			for _, f := range m.Versions[m.Active].Fields {
				vals[f] = c19ValueFor(f, 0)
			}
			data, errs := world.Exec(ctx, n.db, fmt.Sprintf(`mutation { create_U(input: %s) { _docID } }`, c11Input(vals)))
			if len(errs) > 0 {
				viol("write-rejected", si, fmt.Sprint(errs))
				return nil
			}
			id, err := docIDOf(data, "create_U")
			if err != nil {
				return err
			}
			c19ModelApply(m, o, "")
			m.Docs[o.Arg].ID = id
		case "update":
			nm := c19Clone(m)
			c19ModelApply(nm, o, "")
			vals := map[string]any{"n": nm.Docs[o.Arg].Vals["n"], "c": int64(5)}
			for _, f := range m.Versions[m.Active].Fields {
				vals[f] = nm.Docs[o.Arg].Vals[f]
			}
			if _, errs := world.Exec(ctx, n.db, fmt.Sprintf(`mutation { update_U(docID: %q, input: %s) { _docID } }`, m.Docs[o.Arg].ID, c11Input(vals))); len(errs) > 0 {
				viol("write-rejected", si, fmt.Sprint(errs))
				return nil
			}
			m = nm
		case "delete":
			if _, errs := world.Exec(ctx, n.db, fmt.Sprintf(`mutation { delete_U(docID: %q) { _docID } }`, m.Docs[o.Arg].ID)); len(errs) > 0 {
				viol("write-rejected", si, fmt.Sprint(errs))
				return nil
			}
			c19ModelApply(m, o, "")
		case "patch", "patch-inactive":
			known, _, err := n.versions(ctx)
			if err != nil {
				return err
			}
			if err := n.db.PatchSchema(ctx, c19PatchJSON(o.Arg), immutable.None[model.Lens](), o.Kind == "patch"); err != nil {
				atomic.AddInt64(&st.rejected, 1)
				// a rejected schema operation must leave everything as it was
				after, derr := c19Dump(ctx, n.db)
				if derr != nil {
					return derr
				}
				if c19DumpDiff(before, after) != "" {
					viol("rejected-schema-operation-changed-data", si, c19DumpDiff(before, after))
				}
				return nil
			}
			now, _, err := n.versions(ctx)
			if err != nil {
				return err
			}
			for v := range now {
				if _, ok := known[v]; !ok {
					newVersion = v
				}
			}
			if newVersion == "" {
				return fmt.Errorf("patch created no version")
			}
			c19ModelApply(m, o, newVersion)
		case "index":
			col, err := n.db.GetCollectionByName(ctx, "U")
			if err != nil {
				return err
			}
			f := []string{"name", c19Added[0].Name}[o.Arg]
			if _, err := col.CreateIndex(ctx, client.IndexCreateRequest{Fields: []client.IndexedFieldDescription{{Name: f}}}); err != nil {
				viol("index-rejected", si, err.Error())
				return nil
			}
			c19ModelApply(m, o, "")
		case "switch":
			if err := n.db.SetActiveSchemaVersion(ctx, m.Versions[o.Arg].ID); err != nil {
				atomic.AddInt64(&st.rejected, 1)
				after, derr := c19Dump(ctx, n.db)
				if derr != nil {
					return derr
				}
				if c19DumpDiff(before, after) != "" {
					viol("rejected-schema-operation-changed-data", si, c19DumpDiff(before, after))
				}
				return nil
			}
			c19ModelApply(m, o, "")
		}
		// the active version as the database reports it
		if os.Getenv("VERIF_C19_TRACE") != "" {
			vs, act, _ := n.versions(ctx)
			fmt.Fprintf(os.Stderr, "after %v: versions %v active %s\n", o, vs, act)
		}
		_, active, err := n.versions(ctx)
		if err != nil {
			return err
		}
		if active != m.Versions[m.Active].ID {
			viol("active-version", si, fmt.Sprintf("database reports %s active, expected %s", active, m.Versions[m.Active].ID))
		}
		if isSchemaOp {
			atomic.AddInt64(&st.patchOrSwitch, 1)
			after, err := c19Dump(ctx, n.db)
			if err != nil {
				viol("documents-unreadable-after-schema-operation", si, err.Error())
				return nil
			}
			if d := c19DumpDiff(before, after); d != "" {
				viol("existing-data-changed", si, d)
			}
		}
		// every document under the active version
		sel := "_docID _deleted name n c"
		for _, f := range m.Versions[m.Active].Fields {
			sel += " " + f
		}
		data, errs := world.Exec(ctx, n.db, fmt.Sprintf(`query { U(showDeleted: true) { %s } }`, sel))
		if len(errs) > 0 {
			viol("documents-unreadable", si, fmt.Sprint(errs))
			return nil
		}
		rows := map[string]map[string]any{}
		for _, row := range world.Rows(data, "U") {
			rows[fmt.Sprint(row["_docID"])] = row
		}
		if len(rows) != len(m.Docs) {
			viol("document-count", si, fmt.Sprintf("%d documents returned, %d written", len(rows), len(m.Docs)))
		}
		for i, d := range m.Docs {
			atomic.AddInt64(&st.docChecks, 1)
			row, ok := rows[d.ID]
			if !ok {
				viol("document-missing", si, fmt.Sprintf("d%d (%s) is not returned", i, d.ID))
				continue
			}
			want := map[string]any{"_docID": d.ID, "_deleted": d.Deleted, "name": d.Vals["name"], "n": d.Vals["n"], "c": d.Counter}
			for _, f := range m.Versions[m.Active].Fields {
				want[f] = d.Vals[f] // nil when never written
			}
			if world.Canon(want) != world.Canon(row) {
				viol("value", si, fmt.Sprintf("d%d: want %s got %s", i, world.Canon(want), world.Canon(row)))
			}
		}
		// index-backed reads: ordering by an indexed field the active version knows is served from the index
		// and must list every live document exactly once
		for _, f := range m.Indexed {
			if f != "name" && !m.activeHas(f) {
				continue
			}
			var want []string
			for _, d := range m.Docs {
				if !d.Deleted {
					want = append(want, d.ID)
				}
			}
			sort.Strings(want)
			for _, req := range []string{fmt.Sprintf(`query { U(order: {%s: ASC}) { _docID } }`, f), fmt.Sprintf(`query { U(order: {%s: DESC}, limit: 10) { _docID } }`, f)} {
				idata, ierrs := world.Exec(ctx, n.db, req)
				var got []string
				for _, row := range world.Rows(idata, "U") {
					got = append(got, fmt.Sprint(row["_docID"]))
				}
				sort.Strings(got)
				if len(ierrs) > 0 || fmt.Sprint(got) != fmt.Sprint(want) {
					// known defect: an index belongs to the collection version it was created under (and to
					// versions patched from it); a document written while another version is active is not
					// entered, and is missing from index-backed reads once a version with the index is active again
					class := "index-backed-listing"
					if len(ierrs) == 0 && m.IndexOn[f][m.Active] {
						gotSet := map[string]bool{}
						for _, g := range got {
							gotSet[g] = true
						}
						onlyKnown := len(got) < len(want)
						wantSet := map[string]bool{}
						for i, d := range m.Docs {
							if d.Deleted {
								continue
							}
							wantSet[d.ID] = true
							if !gotSet[d.ID] && m.IndexOn[f][m.LastWrite[i]] {
								onlyKnown = false
							}
						}
						for _, g := range got {
							if !wantSet[g] {
								onlyKnown = false
							}
						}
						if onlyKnown {
							class = "index-backed-listing:document-written-under-a-version-without-the-index"
						}
					}
					viol(class, si, fmt.Sprintf("%s returns %v %v, live documents %v (indexes on %v)", req, got, ierrs, want, m.Indexed))
				}
			}
		}
		st.outcomes.LoadOrStore(fmt.Sprintf("%v|%d|%s", m.Versions[m.Active].Fields, len(m.Docs), world.Canon(data)), true)
	}
	if len(hist) > 0 && hist[len(hist)-1].Kind == "switch" && len(m.Docs) > 0 {
		r.Sample(map[string]any{"part": "single node", "history": fmt.Sprint(hist)})
	}
	return nil
}

func c19DumpDiff(a, b map[string]string) string {
	var out []string
	for k, v := range a {
		if b[k] != v {
			out = append(out, fmt.Sprintf("%s:\n   before %s\n   after  %s", k, v, b[k]))
		}
	}
	for k := range b {
		if _, ok := a[k]; !ok {
			out = append(out, "appeared: "+k)
		}
	}
	sort.Strings(out)
	return strings.Join(out, "\n")
}

// ---------- part 2: two nodes ----------

type c19PState struct {
	snaps   [2]vkv.Snap
	patched [2]bool
	nops    int
	path    []string
	docs    []string // docIDs
	creates int
	comps   [2][]c19Head // composite commits each node holds
}

func c19Pair(r *rep.Run, st *c19Stats, L int) error {
	ctx := context.Background()
	nw := runtime.NumCPU()
	type worker struct {
		nodes  [2]*c19Node
		loaded [2]bool // whether the open database object has the patched schema in memory
	}
	workers := make([]*worker, nw)
	for w := range workers {
		a, err := newC19Node()
		if err != nil {
			return err
		}
		b, err := newC19Node()
		if err != nil {
			return err
		}
		workers[w] = &worker{nodes: [2]*c19Node{a, b}}
	}
	defer func() {
		for _, w := range workers {
			w.nodes[0].db.Close()
			w.nodes[1].db.Close()
		}
	}()
	init := &c19PState{snaps: [2]vkv.Snap{workers[0].nodes[0].st.Snapshot(), workers[0].nodes[1].st.Snapshot()}}
	var mu sync.Mutex
	seen := map[string]bool{c19PKey(init): true}
	frontier := []*c19PState{init}
	var herr atomic.Value
	expand := func(w *worker, s *c19PState) []*c19PState {
		nodes := w.nodes
		atomic.AddInt64(&st.states, 1)
		type ev struct {
			name string
			run  func() (*c19PState, error)
		}
		var evs []ev
		restore := func() error {
			for i := range nodes {
				if w.loaded[i] != s.patched[i] {
					if err := nodes[i].reopen(s.snaps[i]); err != nil {
						return err
					}
					w.loaded[i] = s.patched[i]
				} else {
					nodes[i].st.Restore(s.snaps[i])
				}
			}
			return nil
		}
		ns := func(name string) *c19PState {
			return &c19PState{patched: s.patched, nops: s.nops, path: append(append([]string{}, s.path...), name), docs: append([]string{}, s.docs...), creates: s.creates}
		}
		if s.nops < L {
			for i := 0; i < 2; i++ {
				i := i
				if s.creates < 2 {
					evs = append(evs, ev{fmt.Sprintf("create@%d", i), func() (*c19PState, error) {
						n := ns(fmt.Sprintf("create@%d", i))
						vals := map[string]any{"name": fmt.Sprintf("doc%d", s.creates), "n": int64(s.creates), "c": int64(1)}
						if s.patched[i] {
							vals["e1"] = fmt.Sprintf("e1-by-%d", i)
						}
						world.SeedRand("c19", s.path, i)
						data, errs := world.Exec(ctx, nodes[i].db, fmt.Sprintf(`mutation { create_U(input: %s) { _docID } }`, c11Input(vals)))
						world.UnseedRand()
						if len(errs) > 0 {
							return nil, fmt.Errorf("create: %v", errs)
						}
						id, _ := docIDOf(data, "create_U")
						n.docs = append(n.docs, id)
						n.creates++
						n.nops++
						return n, nil
					}})
				}
				for di, id := range s.docs {
					di, id := di, id
					evs = append(evs, ev{fmt.Sprintf("update%d@%d", di, i), func() (*c19PState, error) {
						// only a node that holds the document can update it
						d, _ := world.Exec(ctx, nodes[i].db, fmt.Sprintf(`query { U(docID: %q) { n } }`, id))
						if len(world.Rows(d, "U")) == 0 {
							return nil, nil
						}
						n := ns(fmt.Sprintf("update%d@%d", di, i))
						vals := map[string]any{"n": int64(10*(s.nops+1) + i), "c": int64(5)}
						if s.patched[i] {
							vals["e1"] = fmt.Sprintf("e1-upd-%d-by-%d", s.nops, i)
						}
						world.SeedRand("c19", s.path, i, di)
						_, errs := world.Exec(ctx, nodes[i].db, fmt.Sprintf(`mutation { update_U(docID: %q, input: %s) { _docID } }`, id, c11Input(vals)))
						world.UnseedRand()
						if len(errs) > 0 {
							return nil, fmt.Errorf("update: %v", errs)
						}
						n.nops++
						return n, nil
					}})
				}
				if !s.patched[i] {
					evs = append(evs, ev{fmt.Sprintf("patch@%d", i), func() (*c19PState, error) {
						n := ns(fmt.Sprintf("patch@%d", i))
						if err := nodes[i].db.PatchSchema(ctx, c19PatchJSON(0), immutable.None[model.Lens](), true); err != nil {
							return nil, fmt.Errorf("patch: %w", err)
						}
						w.loaded[i] = true
						n.patched[i] = true
						n.nops++
						return n, nil
					}})
				}
			}
		}
		// deliveries: every composite commit of one node to the other
		for from := 0; from < 2; from++ {
			from := from
			to := 1 - from
			for _, hc := range s.comps[from] {
				hc := hc
				name := fmt.Sprintf("deliver %s %d->%d", hc.cid.String()[len(hc.cid.String())-6:], from, to)
				evs = append(evs, ev{name, func() (*c19PState, error) {
					n := ns(name)
					atomic.AddInt64(&st.merges, 1)
					if err := crdtx.Deliver(ctx, nodes[to].db, nodes[to].st, s.snaps[from], hc.docID, nodes[to].colID, hc.cid); err != nil {
						r.Violation(rep.Violation{Fingerprint: "C19:merge-fails-between-versions",
							Summary: fmt.Sprintf("path %v then deliver %s %d->%d (patched %v): %v", s.path, hc.cid, from, to, s.patched, err),
							Replay:  map[string]any{"part": "pair", "path": n.path}})
						return nil, nil
					}
					return n, nil
				}})
			}
		}
		var next []*c19PState
		for _, e := range evs {
			if err := restore(); err != nil {
				herr.Store(err)
				return nil
			}
			n, err := e.run()
			if err != nil {
				herr.Store(fmt.Errorf("path %v, %s: %w", s.path, e.name, err))
				return nil
			}
			if n == nil {
				continue
			}
			atomic.AddInt64(&st.transitions, 1)
			n.snaps = [2]vkv.Snap{nodes[0].st.Snapshot(), nodes[1].st.Snapshot()}
			for i := range nodes {
				n.comps[i] = c19Composites(ctx, nodes[i])
			}
			c19PairOracle(ctx, r, st, nodes, n)
			k := c19PKey(n)
			mu.Lock()
			if !seen[k] {
				seen[k] = true
				next = append(next, n)
			}
			mu.Unlock()
		}
		return next
	}
	for len(frontier) > 0 {
		ch := make(chan *c19PState)
		var wg sync.WaitGroup
		var nmu sync.Mutex
		var next []*c19PState
		for _, w := range workers {
			wg.Add(1)
			go func(w *worker) {
				defer wg.Done()
				for s := range ch {
					out := expand(w, s)
					nmu.Lock()
					next = append(next, out...)
					nmu.Unlock()
				}
			}(w)
		}
		for _, s := range frontier {
			ch <- s
		}
		close(ch)
		wg.Wait()
		if e := herr.Load(); e != nil {
			return e.(error)
		}
		sort.Slice(next, func(i, j int) bool { return strings.Join(next[i].path, ",") < strings.Join(next[j].path, ",") })
		frontier = next
	}
	return nil
}

type c19Head struct {
	cid   cid.Cid
	docID string
}

// c19Composites lists every composite commit a node holds (delivery alphabet).
func c19Composites(ctx context.Context, n *c19Node) []c19Head {
	var out []c19Head
	d, _ := world.Exec(ctx, n.db, `query { commits(fieldName: "_C") { cid docID } }`)
	for _, row := range world.Rows(d, "commits") {
		c, err := cid.Decode(fmt.Sprint(row["cid"]))
		if err != nil {
			continue
		}
		out = append(out, c19Head{c, fmt.Sprint(row["docID"])})
	}
	sort.Slice(out, func(i, j int) bool { return out[i].cid.String() < out[j].cid.String() })
	return out
}

func c19PKey(s *c19PState) string {
	return fmt.Sprintf("%x|%x|%v|%d|%d", s.snaps[0].Hash(nil), s.snaps[1].Hash(nil), s.patched, s.nops, s.creates)
}

// c19PairOracle: nodes holding the same composite commits of a document agree on every field both
// active versions know.
func c19PairOracle(ctx context.Context, r *rep.Run, st *c19Stats, nodes [2]*c19Node, s *c19PState) {
	common := "_docID _deleted name n c"
	if s.patched[0] && s.patched[1] {
		common += " e1"
	}
	var dumps [2]map[string]string
	var commits [2]map[string]string
	for i := range nodes {
		dumps[i], commits[i] = map[string]string{}, map[string]string{}
		d, errs := world.Exec(ctx, nodes[i].db, fmt.Sprintf(`query { U(showDeleted: true) { %s } }`, common))
		if len(errs) > 0 {
			r.Violation(rep.Violation{Fingerprint: "C19:documents-unreadable:pair", Summary: fmt.Sprintf("path %v node %d: %v", s.path, i, errs), Replay: map[string]any{"part": "pair", "path": s.path}})
			return
		}
		for _, row := range world.Rows(d, "U") {
			dumps[i][fmt.Sprint(row["_docID"])] = world.Canon(row)
		}
		for _, id := range s.docs {
			cd, _ := world.Exec(ctx, nodes[i].db, fmt.Sprintf(`query { commits(docID: %q, fieldName: "_C") { cid } }`, id))
			commits[i][id] = world.CanonRowsUnordered(world.Rows(cd, "commits"))
		}
	}
	for _, id := range s.docs {
		if commits[0][id] != commits[1][id] || commits[0][id] == "[]" {
			continue
		}
		atomic.AddInt64(&st.agreeChecks, 1)
		if dumps[0][id] != dumps[1][id] {
			kind := "common-field"
			if s.patched[0] && s.patched[1] && c19OnlyAddedFieldDiffers(dumps[0][id], dumps[1][id]) && c19MergedBeforePatched(s.path) {
				kind = "added-field-after-a-node-merged-commits-carrying-it-before-being-patched"
			}
			r.Violation(rep.Violation{Fingerprint: "C19:nodes-with-same-commits-disagree:" + kind,
				Summary: fmt.Sprintf("path %v (patched %v): document %s\n  node 0: %s\n  node 1: %s", s.path, s.patched, id, dumps[0][id], dumps[1][id]),
				Replay:  map[string]any{"part": "pair", "path": s.path}})
		}
		st.outcomes.LoadOrStore("pair|"+fmt.Sprint(s.patched)+"|"+dumps[0][id], true)
	}
	if len(s.path) >= 5 && s.patched[0] != s.patched[1] && len(s.docs) > 0 && strings.HasPrefix(s.path[len(s.path)-1], "deliver") {
		r.Sample(map[string]any{"part": "two nodes", "path": s.path})
	}
}

// c19OnlyAddedFieldDiffers: two renderings differ only in e1.
func c19OnlyAddedFieldDiffers(a, b string) bool {
	strip := func(s string) string {
		i := strings.Index(s, ",e1:")
		if i < 0 {
			return s
		}
		j := strings.Index(s[i+1:], ",")
		return s[:i] + s[i+1+j:]
	}
	return strip(a) == strip(b)
}

// c19MergedBeforePatched: some node received a delivery from the already patched other node before
// it was patched itself (the field blocks of the added field were ignored by that merge).
func c19MergedBeforePatched(path []string) bool {
	patchedAt := [2]int{-1, -1}
	for i, e := range path {
		if e == "patch@0" {
			patchedAt[0] = i
		}
		if e == "patch@1" {
			patchedAt[1] = i
		}
	}
	for i, e := range path {
		if !strings.HasPrefix(e, "deliver") {
			continue
		}
		to := int(e[len(e)-1] - '0')
		from := 1 - to
		if patchedAt[from] >= 0 && patchedAt[from] < i && (patchedAt[to] < 0 || patchedAt[to] > i) {
			return true
		}
	}
	return false
}

func c19ReplayCmd(r *rep.Run, path string) int {
	b, err := os.ReadFile(path)
	if err != nil {
		rep.HarnessError("replay: %v", err)
	}
	var f struct {
		Replay struct {
			Part    string  `json:"part"`
			History []c19Op `json:"history"`
			Path    []string `json:"path"`
		} `json:"replay"`
	}
	if err := json.Unmarshal(b, &f); err != nil {
		rep.HarnessError("replay: %v", err)
	}
	if f.Replay.Part == "single" {
		st := &c19Stats{}
		if err := c19RunHistory(r, st, f.Replay.History); err != nil {
			rep.HarnessError("replay: %v", err)
		}
		fmt.Printf("replayed %v: violations=%d\n", f.Replay.History, r.Violations())
		return r.Finish()
	}
	fmt.Println("two-node path (re-run `bin/check C19 quick` to re-explore):", f.Replay.Path)
	return 0
}
