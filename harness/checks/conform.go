package checks

import (
	"context"
	"errors"
	"fmt"
	"os"
	"sync"
	"strings"

	"github.com/sourcenetwork/corekv"

	"github.com/sourcenetwork/defradb/internal/verifh/rep"
	"github.com/sourcenetwork/defradb/internal/verifh/vkv"
	"github.com/sourcenetwork/defradb/internal/verifh/world"
)

// CONFORM binds the vkv device to the real store: every operation sequence up to a length over two
// read-write transactions and two keys is run against badger in-memory and against vkv through the
// same corekv interface; every result and error must agree.
func init() { Register("CONFORM", runConform) }

type cfOp struct {
	txn  int
	kind string
	key  string
}

func cfAlphabet() []cfOp {
	var ops []cfOp
	for t := 0; t < 2; t++ {
		for _, k := range []string{"a", "b"} {
			ops = append(ops, cfOp{t, "get", k}, cfOp{t, "set", k}, cfOp{t, "del", k})
		}
		ops = append(ops, cfOp{t, "has", "a"}, cfOp{t, "iter", ""}, cfOp{t, "riter", ""}, cfOp{t, "commit", ""}, cfOp{t, "discard", ""})
	}
	return ops
}

func errClass(err error) string {
	switch {
	case err == nil:
		return "ok"
	case errors.Is(err, corekv.ErrNotFound):
		return "notfound"
	case errors.Is(err, corekv.ErrTxnConflict):
		return "conflict"
	case errors.Is(err, corekv.ErrDiscardedTxn):
		return "discarded"
	}
	return "err:" + err.Error()
}

func cfRun(ctx context.Context, st corekv.TxnStore, ns string, seq []cfOp, cleanup bool) []string {
	key := func(k string) []byte { return []byte(ns + k) }
	_ = st.Set(ctx, key("a"), []byte("0"))
	txns := []corekv.Txn{st.NewTxn(false), st.NewTxn(false)}
	var out []string
	ended := []bool{false, false}
	for i, op := range seq {
		if ended[op.txn] && (op.kind == "iter" || op.kind == "riter") {
			out = append(out, "n/a") // badger panics on an iterator over a finished transaction: outside the contract
			continue
		}
		if op.kind == "commit" || op.kind == "discard" {
			ended[op.txn] = true
		}
		t := txns[op.txn]
		val := []byte(fmt.Sprintf("v%d", i))
		var r string
		switch op.kind {
		case "get":
			v, err := t.Get(ctx, key(op.key))
			r = string(v) + "/" + errClass(err)
		case "has":
			ok, err := t.Has(ctx, key(op.key))
			r = fmt.Sprint(ok) + "/" + errClass(err)
		case "set":
			r = errClass(t.Set(ctx, key(op.key), val))
		case "del":
			r = errClass(t.Delete(ctx, key(op.key)))
		case "iter", "riter":
			it, err := t.Iterator(ctx, corekv.IterOptions{Prefix: []byte(ns), Reverse: op.kind == "riter"})
			if err != nil {
				r = errClass(err)
				break
			}
			var items []string
			for {
				ok, err := it.Next()
				if err != nil {
					items = append(items, errClass(err))
					break
				}
				if !ok {
					break
				}
				v, _ := it.Value()
				items = append(items, strings.TrimPrefix(string(it.Key()), ns)+"="+string(v))
			}
			_ = it.Close()
			r = strings.Join(items, ",")
		case "commit":
			r = errClass(t.Commit())
		case "discard":
			t.Discard()
			r = "ok"
		}
		out = append(out, r)
	}
	for _, t := range txns {
		t.Discard()
	}
	// final committed content
	a, ea := st.Get(ctx, key("a"))
	b, eb := st.Get(ctx, key("b"))
	out = append(out, "final a="+string(a)+"/"+errClass(ea)+" b="+string(b)+"/"+errClass(eb))
	if cleanup {
		_ = st.Delete(ctx, key("a"))
		_ = st.Delete(ctx, key("b"))
	}
	return out
}

func runConform(args []string) int {
	ctx := context.Background()
	n := 4
	if rep.Tier() == "thorough" {
		n = 5
	}
	alpha := cfAlphabet()
	var mu sync.Mutex
	count, diverged := 0, 0
	var wg sync.WaitGroup
	// one worker (own badger + own vkv) per first operation
	for _, first := range alpha {
		first := first
		wg.Add(1)
		go func() {
			defer wg.Done()
			bad, err := world.NewBadger(ctx)
			if err != nil {
				rep.HarnessError("%v", err)
			}
			defer bad.Close()
			v := vkv.NewStore()
			seq := []cfOp{first}
			local := 0
			var rec func()
			rec = func() {
				ns := fmt.Sprintf("/%d/", local)
				local++
				rb := cfRun(ctx, bad, ns, seq, false)
				rv := cfRun(ctx, v, ns, seq, true)
				if fmt.Sprint(rb) != fmt.Sprint(rv) {
					mu.Lock()
					diverged++
					if diverged <= 5 {
						fmt.Fprintf(os.Stderr, "CONFORMANCE DIVERGENCE seq=%v\n  badger=%v\n  vkv   =%v\n", seq, rb, rv)
					}
					mu.Unlock()
				}
				if len(seq) == n {
					return
				}
				for _, op := range alpha {
					seq = append(seq, op)
					rec()
					seq = seq[:len(seq)-1]
				}
			}
			rec()
			mu.Lock()
			count += local
			mu.Unlock()
		}()
	}
	wg.Wait()
	fmt.Printf("conformance: %d operation sequences (length<=%d, 2 txns x 2 keys) compared between badger in-memory and vkv, %d divergences\n", count, n, diverged)
	if diverged > 0 {
		rep.HarnessError("vkv does not conform to badger")
	}
	return 0
}
