package checks

// C11 — encrypted fields never leave the node in clear (DESIGN.md §4 C11).
//
// For every encryption configuration (whole document, every non-empty subset of the fields), every
// subset of fields present at creation and every update history up to the bound, every written
// value is a unique byte pattern. After every step all bytes that are shared with peers (every
// value under /db/blocks and every event.Update.Block) are searched for every pattern ever written
// to an encrypted field; key bytes must occur under /db/enc only; the key-holding node must read
// back exactly what was written; the commits are then delivered (real syncDAG + merge) to a node
// without the key, whose whole store must be free of the patterns, and to a node that is given the
// key, which must read back the written values.

import (
	"bytes"
	"context"
	"encoding/binary"
	"encoding/json"
	"errors"
	"fmt"
	"os"
	"runtime"
	"sort"
	"strings"
	"sync"
	"sync/atomic"

	cid "github.com/ipfs/go-cid"
	dshelp "github.com/ipfs/boxo/datastore/dshelp"
	"github.com/ipld/go-ipld-prime/linking"
	cidlink "github.com/ipld/go-ipld-prime/linking/cid"
	"github.com/sourcenetwork/corekv"

	"github.com/sourcenetwork/defradb/client"
	coreblock "github.com/sourcenetwork/defradb/internal/core/block"
	"github.com/sourcenetwork/defradb/event"
	"github.com/sourcenetwork/defradb/internal/datastore"
	"github.com/sourcenetwork/defradb/internal/db"
	"github.com/sourcenetwork/defradb/internal/encryption"
	"github.com/sourcenetwork/defradb/internal/verifh/crdtx"
	"github.com/sourcenetwork/defradb/internal/verifh/rep"
	"github.com/sourcenetwork/defradb/internal/verifh/vkv"
	"github.com/sourcenetwork/defradb/internal/verifh/world"
)

func init() { Register("C11", runC11) }

const c11SDL = `type U { s1: String  s2: String  n: Int  c: Int @crdt(type: pncounter) }`

var c11Fields = []string{"s1", "s2", "n", "c"}

type c11Step struct {
	Fields []string // fields written by this update
	Null   bool     // write null instead of a value (registers only)
}

func (s c11Step) String() string {
	if s.Null {
		return "null " + strings.Join(s.Fields, ",")
	}
	return "set " + strings.Join(s.Fields, ",")
}

type c11Case struct {
	EncDoc    bool
	EncFields []string
	Create    []string
	Steps     []c11Step
}

func (c c11Case) String() string {
	e := "encryptFields=" + strings.Join(c.EncFields, ",")
	if c.EncDoc {
		e = "encrypt=true"
	}
	return fmt.Sprintf("%s create{%s} %v", e, strings.Join(c.Create, ","), c.Steps)
}

func (c c11Case) encrypted(f string) bool {
	if c.EncDoc {
		return true
	}
	for _, x := range c.EncFields {
		if x == f {
			return true
		}
	}
	return false
}

// secret k of a field: strings carry a 20-byte marker, integers are unique values >= 2^54 (the GraphQL Int literal is limited to 32 bits, so all writes go through the collection API) whose 8
// big-endian bytes are searched (CBOR encodes them as 0x1b + those bytes).
func c11Str(field string, k int) string { return fmt.Sprintf("SECRET-%s-%04d-q7Zx9", field, k) }
func c11Int(field string, k int) int64 {
	base := int64(0x5EC0DE) << 32
	if field == "c" {
		base = int64(0x5EC1DE) << 32
	}
	return base + int64(k)*0x10001
}

type c11Pattern struct {
	Field string
	Bytes []byte
	Text  string
}

func intPattern(field string, v int64) c11Pattern {
	b := make([]byte, 8)
	binary.BigEndian.PutUint64(b, uint64(v))
	return c11Pattern{field, b, fmt.Sprint(v)}
}

type c11Node struct {
	st   *vkv.Store
	db   *db.DB
	base vkv.Snap
	colID string
}

func newC11Node() (*c11Node, error) {
	ctx := context.Background()
	st := vkv.NewStore()
	d, err := world.NewDB(ctx, st)
	if err != nil {
		return nil, err
	}
	cols, err := d.AddSchema(ctx, c11SDL)
	if err != nil {
		return nil, err
	}
	return &c11Node{st: st, db: d, base: st.Snapshot(), colID: cols[0].CollectionID}, nil
}

type c11Stats struct {
	cases, steps, blocksScanned, eventsScanned, patternsSearched, deliveries, readbacks, mergeRetries, receiverKeys int64
	outcomes                                                                       sync.Map
}

func subsetsOf(xs []string) [][]string {
	var out [][]string
	for m := 0; m < 1<<len(xs); m++ {
		var s []string
		for i, x := range xs {
			if m&(1<<i) != 0 {
				s = append(s, x)
			}
		}
		out = append(out, s)
	}
	return out
}

func runC11(args []string) int {
	r := rep.New("C11", "exploration")
	if len(args) >= 2 && args[0] == "replay" {
		return c11ReplayCmd(r, args[1])
	}
	thorough := rep.Tier() == "thorough"
	depth := 2
	fields := c11Fields // incl. the counter: an unencrypted counter next to an encrypted field matters
	if thorough {
		depth = 3
	}
	var stepAlphabet []c11Step
	for _, f := range fields {
		stepAlphabet = append(stepAlphabet, c11Step{Fields: []string{f}})
	}
	stepAlphabet = append(stepAlphabet, c11Step{Fields: []string{"s1"}, Null: true}, c11Step{Fields: []string{"s1", "s2"}}, c11Step{Fields: []string{"s2", "n"}})
	var hists [][]c11Step
	var rec func(cur []c11Step)
	rec = func(cur []c11Step) {
		hists = append(hists, append([]c11Step{}, cur...))
		if len(cur) == depth {
			return
		}
		for _, s := range stepAlphabet {
			rec(append(cur, s))
		}
	}
	rec(nil)
	var cases []c11Case
	for ei, enc := range subsetsOf(fields) {
		for _, create := range subsetsOf(fields) {
			for _, h := range hists {
				c := c11Case{EncFields: enc, Create: create, Steps: h}
				if ei == 0 {
					c.EncDoc = true
					c.EncFields = nil
				}
				cases = append(cases, c)
			}
		}
	}
	st := &c11Stats{}
	ch := make(chan c11Case)
	var wg sync.WaitGroup
	var herr atomic.Value
	for w := 0; w < runtime.NumCPU(); w++ {
		wg.Add(1)
		go func() {
			defer wg.Done()
			a, err1 := newC11Node()
			b, err2 := newC11Node()
			k, err3 := newC11Node()
			if err1 != nil || err2 != nil || err3 != nil {
				herr.Store(fmt.Errorf("%v %v %v", err1, err2, err3))
				for range ch {
				}
				return
			}
			for c := range ch {
				if err := c11Run(r, st, a, b, k, c); err != nil {
					herr.Store(fmt.Errorf("%s: %w", c, err))
				}
			}
		}()
	}
	for _, c := range cases {
		ch <- c
	}
	close(ch)
	wg.Wait()
	if e := herr.Load(); e != nil {
		rep.HarnessError("C11: %v", e)
	}
	no := 0
	st.outcomes.Range(func(k, v any) bool { no++; return true })
	r.Coverage["evaluations"] = st.cases
	r.Coverage["distinct_nontrivial"] = no
	r.Coverage["rule"] = fmt.Sprintf("encryption configuration in {whole document} + every non-empty subset of %v x every subset of fields present at creation x every update history of <=%d steps over %d steps (single field, two fields, set to null); distinct = distinct (configuration, set of fields written after creation for the first time, final set of encrypted blocks per field) classes", fields, depth, len(stepAlphabet))
	r.Coverage["update_steps"] = st.steps
	r.Coverage["block_values_scanned"] = st.blocksScanned
	r.Coverage["update_events_scanned"] = st.eventsScanned
	r.Coverage["pattern_searches"] = st.patternsSearched
	r.Coverage["deliveries_to_keyless_and_keyed_receivers"] = st.deliveries
	r.Coverage["merges_retried_after_conflict_with_key_save"] = st.mergeRetries
	r.Coverage["keys_found_in_key_stores_of_keyed_receivers"] = st.receiverKeys
	if st.receiverKeys == 0 {
		rep.HarnessError("C11: no keyed receiver ever held a key: the receiver-side scan would be vacuous")
	}
	r.Coverage["readbacks_compared"] = st.readbacks
	r.Coverage["exhaustive"] = true
	r.Assumptions = []string{
		"secrets are unique byte patterns (20-byte string markers, 8-byte big-endian integers >= 2^54, written through the collection API); a leak in a re-encoded form (e.g. hex of the value) would not be seen",
		"the key exchange (KMS over pubsub) is replaced by the harness answering the RequestKeys event with the sender's /db/enc blocks or with nothing",
		"AES-GCM itself is trusted",
	}
	return r.Finish()
}

func c11Input(vals map[string]any) string {
	ks := make([]string, 0, len(vals))
	for k := range vals {
		ks = append(ks, k)
	}
	sort.Strings(ks)
	var parts []string
	for _, k := range ks {
		switch v := vals[k].(type) {
		case nil:
			parts = append(parts, k+": null")
		case string:
			parts = append(parts, fmt.Sprintf("%s: %q", k, v))
		default:
			parts = append(parts, fmt.Sprintf("%s: %v", k, v))
		}
	}
	return "{" + strings.Join(parts, ", ") + "}"
}

func encKey(c cid.Cid) string { return "/db/enc" + dshelp.MultihashToDsKey(c.Hash()).String() }

// c11Run executes one case on node a (creator), b (no key), k (given the key).
func c11Run(r *rep.Run, st *c11Stats, a, b, k *c11Node, c c11Case) error {
	ctx := context.Background()
	atomic.AddInt64(&st.cases, 1)
	a.st.Restore(a.base)
	b.st.Restore(b.base)
	k.st.Restore(k.base)
	world.SeedRand("c11", c.String())
	defer world.UnseedRand()
	sub, err := a.db.Events().Subscribe(event.UpdateName)
	if err != nil {
		return err
	}
	defer a.db.Events().Unsubscribe(sub)
	var patterns []c11Pattern // of encrypted fields
	want := map[string]any{}  // current expected values
	counter := int64(0)
	nval := 0
	value := func(f string) any {
		nval++
		switch f {
		case "n", "c":
			v := c11Int(f, nval)
			if c.encrypted(f) {
				patterns = append(patterns, intPattern(f, v))
			}
			return v
		}
		s := c11Str(f, nval)
		if c.encrypted(f) {
			patterns = append(patterns, c11Pattern{f, []byte(s), s})
		}
		return s
	}
	violation := func(kind, where, detail string, stepIdx int) {
		first := ""
		if stepIdx >= 0 {
			first = "update"
		} else {
			first = "create"
		}
		lvl := "field-level"
		if c.EncDoc {
			lvl = "document-level"
		}
		r.Violation(rep.Violation{Fingerprint: "C11:" + lvl + ":" + kind + ":" + first,
			Summary: fmt.Sprintf("%s step %d: %s: %s", c, stepIdx, where, detail),
			Replay:  c})
	}
	var events []event.Update
	drain := func() {
		for {
			select {
			case m := <-sub.Message():
				if u, ok := m.Data.(event.Update); ok {
					events = append(events, u)
				}
			default:
				return
			}
		}
	}
	scan := func(stepIdx int) {
		sn := a.st.Snapshot()
		// key material
		var keys [][]byte
		sn.Each(func(key string, v []byte) {
			if strings.HasPrefix(key, "/db/enc/") {
				if eb, err := coreblock.GetEncryptionBlockFromBytes(v); err == nil && len(eb.Key) > 0 {
					keys = append(keys, eb.Key)
				}
			}
		})
		sn.Each(func(key string, v []byte) {
			if strings.HasPrefix(key, "/db/blocks/") {
				atomic.AddInt64(&st.blocksScanned, 1)
				for _, p := range patterns {
					atomic.AddInt64(&st.patternsSearched, 1)
					if bytes.Contains(v, p.Bytes) {
						violation("plaintext-in-blockstore:"+c11FirstWrite(c, p.Field, stepIdx), "block "+key, fmt.Sprintf("contains the value %s written to encrypted field %s", p.Text, p.Field), stepIdx)
					}
				}
			}
			if !strings.HasPrefix(key, "/db/enc/") {
				for _, kb := range keys {
					if bytes.Contains(v, kb) {
						violation("key-outside-encstore", key, "contains an encryption key", stepIdx)
					}
				}
			}
		})
		for _, u := range events {
			atomic.AddInt64(&st.eventsScanned, 1)
			for _, p := range patterns {
				if bytes.Contains(u.Block, p.Bytes) {
					violation("plaintext-in-update-event:"+c11FirstWrite(c, p.Field, stepIdx), "event for "+u.Cid.String(), fmt.Sprintf("contains the value %s written to encrypted field %s", p.Text, p.Field), stepIdx)
				}
			}
			for _, kb := range keys {
				if bytes.Contains(u.Block, kb) {
					violation("key-in-update-event", u.Cid.String(), "contains an encryption key", stepIdx)
				}
			}
		}
	}
	readback := func(n *c11Node, who string, stepIdx int) {
		atomic.AddInt64(&st.readbacks, 1)
		d, errs := world.Exec(ctx, n.db, `query { U { s1 s2 n c } }`)
		rows := world.Rows(d, "U")
		if len(errs) > 0 || len(rows) != 1 {
			violation("readback", who, fmt.Sprintf("expected one document, got %s %v", world.Canon(d), errs), stepIdx)
			return
		}
		for _, f := range c11Fields {
			w := want[f]
			if f == "c" {
				w = counter
				if _, touched := want["c"]; !touched {
					w = nil
				}
			}
			g := rows[0][f]
			if fmt.Sprint(g) != fmt.Sprint(w) {
				violation("readback", who, fmt.Sprintf("field %s: wrote %v, read %v", f, w, g), stepIdx)
			}
		}
	}
	// create
	vals := map[string]any{}
	for _, f := range c.Create {
		vals[f] = value(f)
		want[f] = vals[f]
		if f == "c" {
			counter += vals[f].(int64)
		}
	}
	col, err := a.db.GetCollectionByName(ctx, "U")
	if err != nil {
		return err
	}
	doc, err := client.NewDocFromMap(vals, col.Definition())
	if err != nil {
		return fmt.Errorf("new doc: %w", err)
	}
	opt := client.CreateDocEncrypted(true)
	if !c.EncDoc {
		opt = client.CreateDocWithEncryptedFields(c.EncFields)
	}
	if err := col.Create(ctx, doc, opt); err != nil {
		return fmt.Errorf("create: %w", err)
	}
	docID := doc.ID().String()
	drain()
	scan(-1)
	readback(a, "creating node", -1)
	for si, s := range c.Steps {
		atomic.AddInt64(&st.steps, 1)
		vals := map[string]any{}
		for _, f := range s.Fields {
			if s.Null && f != "c" {
				vals[f] = nil
				want[f] = nil
				continue
			}
			vals[f] = value(f)
			want[f] = vals[f]
			if f == "c" {
				counter += vals[f].(int64)
			}
		}
		for f, v := range vals {
			if err := doc.Set(f, v); err != nil {
				return fmt.Errorf("set %s: %w", f, err)
			}
		}
		if err := col.Update(ctx, doc); err != nil {
			return fmt.Errorf("update %v: %w", s, err)
		}
		drain()
		scan(si)
		readback(a, "creating node", si)
	}
	// deliver every composite commit (heads last) to the receivers
	sn := a.st.Snapshot()
	d2, _ := world.Exec(ctx, a.db, fmt.Sprintf(`query { commits(docID: %q, fieldName: "_C", order: {height: ASC}) { cid height } }`, docID))
	var cids []cid.Cid
	for _, row := range world.Rows(d2, "commits") {
		cc, err := cid.Decode(fmt.Sprint(row["cid"]))
		if err != nil {
			return err
		}
		cids = append(cids, cc)
	}
	if len(cids) != 1+len(c.Steps) {
		return fmt.Errorf("expected %d composite commits, found %d", 1+len(c.Steps), len(cids))
	}
	for _, rcv := range []struct {
		n       *c11Node
		withKey bool
	}{{b, false}, {k, true}} {
		ksub, err := rcv.n.db.Events().Subscribe(encryption.RequestKeysEventName)
		if err != nil {
			return err
		}
		stop := make(chan struct{})
		done := make(chan struct{})
		go func() {
			defer close(done)
			for {
				select {
				case <-stop:
					return
				case m := <-ksub.Message():
					req, ok := m.Data.(encryption.RequestKeysEvent)
					if !ok {
						continue
					}
					var res encryption.Result
					if rcv.withKey {
						for _, l := range req.Keys {
							if v, ok := sn.Get(encKey(l.Cid)); ok {
								// as the key service does (kms/pubsub.go): save the key in the key store, then answer
								var eb coreblock.Encryption
								if err := eb.Unmarshal(v); err == nil {
									lsys := cidlink.DefaultLinkSystem()
									lsys.SetWriteStorage(datastore.EncstoreFrom(rcv.n.st).AsIPLDStorage())
									_, _ = lsys.Store(linking.LinkContext{Ctx: ctx}, coreblock.GetLinkPrototype(), eb.GenerateNode())
								}
								res.Items = append(res.Items, encryption.Item{Link: l.Cid.Bytes(), Block: v})
							}
						}
					}
					req.Resp <- res
				}
			}
		}()
		for _, cc := range cids {
			atomic.AddInt64(&st.deliveries, 1)
			var err error
			for try := 0; try < rcv.n.db.MaxTxnRetries(); try++ {
				// the merge is retried on a conflict with the key service's write, as in handleMessages
				if err = crdtx.Deliver(ctx, rcv.n.db, rcv.n.st, sn, docID, rcv.n.colID, cc); !errors.Is(err, corekv.ErrTxnConflict) {
					break
				}
				atomic.AddInt64(&st.mergeRetries, 1)
			}
			if err != nil {
				close(stop)
				<-done
				rcv.n.db.Events().Unsubscribe(ksub)
				return fmt.Errorf("deliver %s (withKey=%v): %w", cc, rcv.withKey, err)
			}
		}
		close(stop)
		<-done
		rcv.n.db.Events().Unsubscribe(ksub)
		if rcv.withKey {
			readback(rcv.n, "receiver holding the key", len(c.Steps))
			// the receiver that obtained the keys: key material only in its key store, no plaintext in its blocks
			var keys [][]byte
			rsn := rcv.n.st.Snapshot()
			rsn.Each(func(key string, v []byte) {
				if strings.HasPrefix(key, "/db/enc/") {
					if eb, err := coreblock.GetEncryptionBlockFromBytes(v); err == nil && len(eb.Key) > 0 {
						keys = append(keys, eb.Key)
					}
				}
			})
			atomic.AddInt64(&st.receiverKeys, int64(len(keys)))
			rsn.Each(func(key string, v []byte) {
				atomic.AddInt64(&st.blocksScanned, 1)
				if strings.HasPrefix(key, "/db/enc/") {
					return
				}
				for _, kb := range keys {
					if bytes.Contains(v, kb) {
						violation("key-outside-encstore-on-receiver", key, "contains an encryption key", len(c.Steps))
					}
				}
				if strings.HasPrefix(key, "/db/blocks/") {
					for _, p := range patterns {
						atomic.AddInt64(&st.patternsSearched, 1)
						if bytes.Contains(v, p.Bytes) {
							violation("plaintext-in-blockstore-of-keyed-receiver:"+c11FirstWrite(c, p.Field, len(c.Steps)), key, fmt.Sprintf("contains the value %s of encrypted field %s", p.Text, p.Field), len(c.Steps))
						}
					}
				}
			})
			continue
		}
		rcv.n.st.Snapshot().Each(func(key string, v []byte) {
			atomic.AddInt64(&st.blocksScanned, 1)
			for _, p := range patterns {
				if bytes.Contains(v, p.Bytes) {
					violation("plaintext-on-keyless-receiver:"+c11FirstWrite(c, p.Field, len(c.Steps)), key, fmt.Sprintf("contains the value %s of encrypted field %s", p.Text, p.Field), len(c.Steps))
				}
			}
		})
	}
	// outcome class for the evidence
	var firstLater []string
	created := map[string]bool{}
	for _, f := range c.Create {
		created[f] = true
	}
	for _, s := range c.Steps {
		for _, f := range s.Fields {
			if !created[f] && !s.Null {
				firstLater = append(firstLater, f)
				created[f] = true
			}
		}
	}
	class := fmt.Sprintf("doc=%v enc=%v firstWrittenByUpdate=%v", c.EncDoc, c.EncFields, firstLater)
	if _, seen := st.outcomes.LoadOrStore(class, true); !seen && len(firstLater) > 0 {
		r.Sample(map[string]any{"case": c.String(), "patterns_searched": len(patterns), "composite_commits_delivered": len(cids)})
	}
	return nil
}

// c11FirstWrite classifies whether the leaked field was absent at creation (first written by an update).
func c11FirstWrite(c c11Case, field string, stepIdx int) string {
	for _, f := range c.Create {
		if f == field {
			return "field-present-at-creation"
		}
	}
	return "field-first-written-by-a-later-update"
}

func c11ReplayCmd(r *rep.Run, path string) int {
	b, err := os.ReadFile(path)
	if err != nil {
		rep.HarnessError("replay: %v", err)
	}
	var f struct {
		Replay c11Case `json:"replay"`
	}
	if err := json.Unmarshal(b, &f); err != nil {
		rep.HarnessError("replay: %v", err)
	}
	a, _ := newC11Node()
	bb, _ := newC11Node()
	k, _ := newC11Node()
	st := &c11Stats{}
	if err := c11Run(r, st, a, bb, k, f.Replay); err != nil {
		rep.HarnessError("replay: %v", err)
	}
	fmt.Printf("replayed %s: violations=%d\n", f.Replay, r.Violations())
	return r.Finish()
}
