package checks

// PROBE: development aid, not a check. usage: vcheck PROBE '<sdl>' '<request>'...
// Runs the requests one after the other on a fresh in-memory database and prints data and errors.

import (
	"context"
	"fmt"

	"github.com/sourcenetwork/defradb/internal/verifh/vkv"
	"github.com/sourcenetwork/defradb/internal/verifh/world"
)

func init() { Register("PROBE", runProbe) }

func runProbe(args []string) int {
	if len(args) < 2 {
		fmt.Println("usage: PROBE '<sdl>' '<request>'...")
		return 2
	}
	ctx := context.Background()
	d, err := world.NewDB(ctx, vkv.NewStore())
	if err != nil {
		fmt.Println(err)
		return 2
	}
	defer d.Close()
	if _, err := d.AddSchema(ctx, args[0]); err != nil {
		fmt.Println("schema:", err)
		return 2
	}
	for _, q := range args[1:] {
		data, errs := world.Exec(ctx, d, q)
		fmt.Printf("> %s\n  %s %v\n", q, world.Canon(data), errs)
	}
	return 0
}
