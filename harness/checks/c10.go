package checks

// C10 — documents you may not read are invisible through every query path (DESIGN.md §4 C10).
//
// Non-interference by twin: for every mix of public / private / granted documents, every requester
// (a second identity, anonymous), every grant / revoke / write history up to the bound, every
// request of the corpus is answered for the restricted requester by the real database and by a
// twin that replays the same history without the documents the requester cannot read at the end.
// The two answers must be identical. Write attempts by the requester are part of the histories:
// after each, the owner's view of every document the requester may not update is unchanged.

import (
	"crypto/sha256"
	"encoding/hex"
	"context"
	"encoding/json"
	"fmt"
	"os"
	"runtime"
	"sort"
	"strings"
	"sync"
	"sync/atomic"
	"time"

	"github.com/sourcenetwork/immutable"

	"github.com/sourcenetwork/defradb/acp/dac"
	"github.com/sourcenetwork/defradb/acp/identity"
	"github.com/sourcenetwork/defradb/client"
	"github.com/sourcenetwork/defradb/crypto"
	"github.com/sourcenetwork/defradb/internal/db"
	"github.com/sourcenetwork/defradb/internal/verifh/rep"
	"github.com/sourcenetwork/defradb/internal/verifh/vkv"
	"github.com/sourcenetwork/defradb/internal/verifh/world"
)

func init() { Register("C10", runC10) }

const c10Policy = `
name: verif
description: owner, reader and writer on documents

actor:
  name: actor

resources:
  t:
    permissions:
      read:
        expr: owner + reader + writer
      update:
        expr: owner + writer
      delete:
        expr: owner

    relations:
      owner:
        types:
          - actor
      reader:
        types:
          - actor
      writer:
        types:
          - actor
`

type c10Cfg struct {
	Name string
	SDL  string // %s = policy id
}

func c10Configs() []c10Cfg {
	return []c10Cfg{
		{"no index", `type T @policy(id: "%s", resource: "t") { u: Int  a: Int  s: String  rs: [R] }
type R { name: String  t: T }`},
		{"index on a, s and the foreign key", `type T @policy(id: "%s", resource: "t") { u: Int  a: Int @index  s: String @index  rs: [R] }
type R { name: String  t: T @index }`},
	}
}

var c10Owner, c10Other identity.FullIdentity
var c10IdOnce sync.Once

func c10Identities() {
	c10IdOnce.Do(func() {
		world.SeedRand("c10-identities")
		defer world.UnseedRand()
		var err error
		if c10Owner, err = identity.Generate(crypto.KeyTypeSecp256k1); err != nil {
			rep.HarnessError("identity: %v", err)
		}
		if c10Other, err = identity.Generate(crypto.KeyTypeSecp256k1); err != nil {
			rep.HarnessError("identity: %v", err)
		}
	})
}

// ---------- model ----------

type c10Doc struct {
	Exists, Private, Reader, Writer, Deleted bool
	A                                        int
	S                                        string
}

type c10Model struct {
	Docs [3]c10Doc
	Anon bool // requester is anonymous (else the second identity)
}

func (m *c10Model) canRead(i int) bool {
	d := m.Docs[i]
	return d.Exists && (!d.Private || (!m.Anon && (d.Reader || d.Writer)))
}
func (m *c10Model) canUpdate(i int) bool {
	d := m.Docs[i]
	return d.Exists && (!d.Private || (!m.Anon && d.Writer))
}
func (m *c10Model) canDelete(i int) bool { d := m.Docs[i]; return d.Exists && !d.Private }

// ---------- steps ----------

type c10Step struct {
	Kind string // create-public create-private grant-reader grant-writer revoke-reader revoke-writer owner-update owner-delete req-update req-delete req-update-all req-delete-all
	Doc  int
}

func (s c10Step) String() string { return fmt.Sprintf("%s(d%d)", s.Kind, s.Doc) }

type c10World struct {
	ctx, owner, req context.Context
	db              *db.DB
	st              *vkv.Store
	ids             [3]string
}

func docBody(i int) string {
	return fmt.Sprintf(`u: %d, a: %d, s: %q`, i, []int{1, 1, 2}[i], []string{"x", "y", "x"}[i])
}

func newC10World(cfg c10Cfg, anon bool) (*c10World, error) {
	c10Identities()
	ctx := context.Background()
	st := vkv.NewStore()
	acp, err := dac.NewLocalDocumentACP("")
	if err != nil {
		return nil, err
	}
	d, err := world.NewDBWithACP(ctx, st, acp)
	if err != nil {
		return nil, err
	}
	w := &c10World{ctx: ctx, db: d, st: st}
	w.owner = identity.WithContext(ctx, immutable.Some[identity.Identity](c10Owner))
	if anon {
		w.req = ctx
	} else {
		w.req = identity.WithContext(ctx, immutable.Some[identity.Identity](c10Other))
	}
	res, err := d.AddDACPolicy(w.owner, c10Policy)
	if err != nil {
		return nil, fmt.Errorf("policy: %w", err)
	}
	if _, err := d.AddSchema(ctx, fmt.Sprintf(cfg.SDL, res.PolicyID)); err != nil {
		return nil, fmt.Errorf("schema: %w", err)
	}
	return w, nil
}

func (w *c10World) close() { w.db.Close() }

// apply executes one step; skip reports that the twin omits it.
func (w *c10World) apply(s c10Step) (any, []string, error) {
	i := s.Doc
	switch s.Kind {
	case "create-public", "create-private":
		c := w.ctx
		if s.Kind == "create-private" {
			c = w.owner
		}
		data, errs := world.Exec(c, w.db, fmt.Sprintf(`mutation { create_T(input: {%s}) { _docID } }`, docBody(i)))
		if len(errs) > 0 {
			return nil, errs, fmt.Errorf("create: %v", errs)
		}
		id, err := docIDOf(data, "create_T")
		if err != nil {
			return nil, nil, err
		}
		w.ids[i] = id
		_, errs = world.Exec(w.ctx, w.db, fmt.Sprintf(`mutation { create_R(input: {name: "r%d", t_id: %q}) { _docID } }`, i, id))
		if len(errs) > 0 {
			return nil, errs, fmt.Errorf("create R: %v", errs)
		}
		return nil, nil, nil
	case "grant-reader", "grant-writer":
		_, err := w.db.AddDACActorRelationship(w.owner, "T", w.ids[i], strings.TrimPrefix(s.Kind, "grant-"), c10Other.DID())
		return nil, nil, err
	case "revoke-reader", "revoke-writer":
		_, err := w.db.DeleteDACActorRelationship(w.owner, "T", w.ids[i], strings.TrimPrefix(s.Kind, "revoke-"), c10Other.DID())
		return nil, nil, err
	case "owner-update":
		_, errs := world.Exec(w.owner, w.db, fmt.Sprintf(`mutation { update_T(docID: %q, input: {a: 3}) { _docID } }`, w.ids[i]))
		if len(errs) > 0 {
			return nil, errs, fmt.Errorf("owner update: %v", errs)
		}
		return nil, nil, nil
	case "owner-delete":
		_, errs := world.Exec(w.owner, w.db, fmt.Sprintf(`mutation { delete_T(docID: %q) { _docID } }`, w.ids[i]))
		if len(errs) > 0 {
			return nil, errs, fmt.Errorf("owner delete: %v", errs)
		}
		return nil, nil, nil
	case "req-update":
		d, errs := world.Exec(w.req, w.db, fmt.Sprintf(`mutation { update_T(docID: %q, input: {s: "z"}) { u s } }`, w.ids[i]))
		return d, errs, nil
	case "req-delete":
		d, errs := world.Exec(w.req, w.db, fmt.Sprintf(`mutation { delete_T(docID: %q) { u } }`, w.ids[i]))
		return d, errs, nil
	case "req-update-all":
		d, errs := world.Exec(w.req, w.db, `mutation { update_T(filter: {u: {_ge: 0}}, input: {s: "z"}) { u s } }`)
		return d, errs, nil
	case "req-delete-all":
		d, errs := world.Exec(w.req, w.db, `mutation { delete_T(filter: {a: {_eq: 1}}) { u } }`)
		return d, errs, nil
	case "req-update-all-api", "req-delete-all-api", "req-delete-api":
		// the same attempts through the collection API (client.Collection), which has its own code path
		col, err := w.db.GetCollectionByName(w.req, "T")
		if err != nil {
			return nil, nil, err
		}
		var aerr error
		var out any
		switch s.Kind {
		case "req-update-all-api":
			var res *client.UpdateResult
			res, aerr = col.UpdateWithFilter(w.req, `{u: {_ge: 0}}`, `{"s": "z"}`)
			if res != nil {
				out = res.Count
			}
		case "req-delete-all-api":
			var res *client.DeleteResult
			res, aerr = col.DeleteWithFilter(w.req, `{a: {_eq: 1}}`)
			if res != nil {
				out = res.Count
			}
		case "req-delete-api":
			id, err := client.NewDocIDFromString(w.ids[i])
			if err != nil {
				return nil, nil, err
			}
			out, aerr = col.Delete(w.req, id)
		}
		var errs []string
		if aerr != nil {
			errs = []string{aerr.Error()}
		}
		return map[string]any{"result": out}, errs, nil
	}
	return nil, nil, fmt.Errorf("unknown step %v", s)
}

func (m *c10Model) apply(s c10Step) {
	d := &m.Docs[s.Doc]
	switch strings.TrimSuffix(s.Kind, "-api") {
	case "create-public":
		*d = c10Doc{Exists: true, A: []int{1, 1, 2}[s.Doc], S: []string{"x", "y", "x"}[s.Doc]}
	case "create-private":
		*d = c10Doc{Exists: true, Private: true, A: []int{1, 1, 2}[s.Doc], S: []string{"x", "y", "x"}[s.Doc]}
	case "grant-reader":
		d.Reader = true
	case "grant-writer":
		d.Writer = true
	case "revoke-reader":
		d.Reader = false
	case "revoke-writer":
		d.Writer = false
	case "owner-update":
		d.A = 3
	case "owner-delete":
		d.Deleted = true
	case "req-update":
		if m.canUpdate(s.Doc) && !d.Deleted {
			d.S = "z"
		}
	case "req-delete":
		if m.canDelete(s.Doc) {
			d.Deleted = true
		}
	case "req-update-all":
		for i := range m.Docs {
			if m.canUpdate(i) && !m.Docs[i].Deleted {
				m.Docs[i].S = "z"
			}
		}
	case "req-delete-all":
		for i := range m.Docs {
			if m.canDelete(i) && !m.Docs[i].Deleted && m.Docs[i].A == 1 {
				m.Docs[i].Deleted = true
			}
		}
	}
}

func (s c10Step) applicable(m *c10Model) bool {
	d := m.Docs[s.Doc]
	switch strings.TrimSuffix(s.Kind, "-api") {
	case "grant-reader":
		return d.Exists && d.Private && !d.Reader && !m.Anon
	case "grant-writer":
		return d.Exists && d.Private && !d.Writer && !m.Anon
	case "revoke-reader":
		return d.Exists && d.Private && d.Reader
	case "revoke-writer":
		return d.Exists && d.Private && d.Writer
	case "owner-update":
		return d.Exists && !d.Deleted && d.A != 3
	case "owner-delete":
		return d.Exists && !d.Deleted
	case "req-update", "req-delete":
		return d.Exists && !d.Deleted
	case "req-update-all", "req-delete-all":
		return s.Doc == 0
	}
	return false
}

func c10Steps() []c10Step {
	var out []c10Step
	for _, k := range []string{"grant-reader", "grant-writer", "revoke-reader", "revoke-writer", "owner-update", "owner-delete", "req-update", "req-delete"} {
		for i := 0; i < 3; i++ {
			out = append(out, c10Step{k, i})
		}
	}
	for i := 0; i < 3; i++ {
		out = append(out, c10Step{"req-delete-api", i})
	}
	return append(out, c10Step{"req-update-all", 0}, c10Step{"req-delete-all", 0}, c10Step{"req-update-all-api", 0}, c10Step{"req-delete-all-api", 0})
}

// ---------- requests ----------

type c10Req struct {
	Kind string
	GQL  string
}

func c10Requests(ids [3]string, cids []string) []c10Req {
	var out []c10Req
	add := func(kind, q string) { out = append(out, c10Req{kind, q}) }
	add("list", `query { T { _docID u a s } }`)
	add("list-deleted", `query { T(showDeleted: true) { _docID _deleted u a s } }`)
	for _, f := range []string{`a: {_eq: 1}`, `a: {_ne: 1}`, `a: {_gt: 1}`, `a: {_le: 3}`, `s: {_eq: "x"}`, `s: {_like: "%"}`, `s: {_in: ["x", "y", "z"]}`, `u: {_ge: 0}`,
		`_or: [{a: {_eq: 1}}, {s: {_eq: "x"}}]`, `_and: [{a: {_eq: 1}}, {s: {_eq: "x"}}]`, `_not: {a: {_eq: 1}}`, `a: {_eq: null}`} {
		add("filter", fmt.Sprintf(`query { T(filter: {%s}) { u a s } }`, f))
	}
	for _, o := range []string{`{a: ASC}`, `{a: DESC}`, `{s: ASC}`, `[{a: ASC}, {u: DESC}]`} {
		add("order", fmt.Sprintf(`query { T(order: %s) { u a s } }`, o))
		add("order-limit", fmt.Sprintf(`query { T(order: %s, limit: 1) { u a s } }`, o))
		add("order-limit", fmt.Sprintf(`query { T(order: %s, limit: 1, offset: 1) { u a s } }`, o))
	}
	add("order-limit", `query { T(order: {u: ASC}, limit: 2) { u } }`)
	add("aggregate", `query { _count(T: {}) }`)
	add("aggregate", `query { _count(T: {filter: {a: {_eq: 1}}}) }`)
	add("aggregate", `query { _sum(T: {field: a}) }`)
	add("aggregate", `query { _avg(T: {field: a}) }`)
	add("aggregate", `query { _min(T: {field: a}) }`)
	add("aggregate", `query { _max(T: {field: u}) }`)
	add("group", `query { T(groupBy: [a]) { a _count(_group: {}) _group { u } } }`)
	add("group", `query { T(groupBy: [s]) { s _sum(_group: {field: a}) } }`)
	add("join", `query { R { name t { u a s } } }`)
	add("join", `query { R { name t_id } }`)
	add("join", `query { T { u rs { name } } }`)
	add("join-filter", `query { R(filter: {t: {a: {_eq: 1}}}) { name } }`)
	add("join-filter", `query { R(filter: {t: {s: {_eq: "x"}}}) { name t { u } } }`)
	add("join-filter", `query { R(filter: {t: {a: {_ne: 9}}}) { name } }`)
	add("join-order", `query { R(order: {t: {a: ASC}}) { name t { a } } }`)
	add("join-aggregate", `query { T { u _count(rs: {}) } }`)
	add("join-aggregate", `query { R { name n: _count(t: {}) } }`)
	add("version", `query { T { u _version { cid height } } }`)
	add("version", `query { T { u _version { cid links { cid name } } } }`)
	for i, id := range ids {
		if id == "" {
			continue
		}
		_ = i
		add("by-id", fmt.Sprintf(`query { T(docID: %q) { u a s } }`, id))
		add("by-id", fmt.Sprintf(`query { T(docID: [%q]) { u } }`, id))
		add("by-id-filter", fmt.Sprintf(`query { T(filter: {_docID: {_eq: %q}}) { u a s } }`, id))
		add("by-id-deleted", fmt.Sprintf(`query { T(docID: %q, showDeleted: true) { u _deleted } }`, id))
		add("join-by-fk", fmt.Sprintf(`query { R(filter: {t_id: {_eq: %q}}) { name t { u } } }`, id))
		add("commits-by-doc", fmt.Sprintf(`query { commits(docID: %q) { cid docID fieldName height delta } }`, id))
		add("latest-commits", fmt.Sprintf(`query { latestCommits(docID: %q) { cid height delta } }`, id))
	}
	add("commits-all", `query { commits { cid docID fieldName height delta } }`)
	add("commits-all", `query { commits(groupBy: [docID]) { docID _count(_group: {}) } }`)
	add("commits-all", `query { commits(order: {height: DESC}, limit: 2) { cid docID } }`)
	for _, c := range cids {
		add("commit-by-cid", fmt.Sprintf(`query { commits(cid: %q) { cid docID delta } }`, c))
		for _, id := range ids {
			if id != "" {
				add("time-travel", fmt.Sprintf(`query { T(cid: %q, docID: %q) { u a s } }`, c, id))
			}
		}
	}
	return out
}

// ---------- run ----------

type c10Stats struct {
	worlds, requests, identical, hidden, steps, attempts, subs, skipped int64
	kinds                                               sync.Map
	outcomes                                            sync.Map
}

type c10Case struct {
	Cfg   int
	Anon  bool
	Steps []c10Step
	Deep  bool // layout is the representative of its class under permutation of the three documents
}

func runC10(args []string) int {
	r := rep.New("C10", "exploration")
	if len(args) >= 2 && args[0] == "replay" {
		return c10ReplayCmd(args[1])
	}
	thorough := rep.Tier() == "thorough"
	depth := 1
	if thorough {
		depth = 2
		// depth 2 builds ~150 000 worlds with an ACP engine each; the engine does not give all of its
		// memory back, so the work is cut into shards run one after the other in fresh processes
		if os.Getenv("VERIF_SHARD") == "" && os.Getenv("VERIF_C10_MAX") == "" {
			return rep.RunSharded("C10", "exploration", 12)
		}
	}
	if v := os.Getenv("VERIF_C10_DEPTH"); v != "" { // development aid
		fmt.Sscan(v, &depth)
	}
	// initial layouts: every document public / private / private with reader / private with writer
	classes := [][]c10Step{}
	kinds := []string{"public", "private", "reader", "writer"}
	var layouts [][3]string
	for _, a := range kinds {
		for _, b := range kinds {
			for _, c := range kinds {
				layouts = append(layouts, [3]string{a, b, c})
			}
		}
	}
	_ = classes
	var cases []c10Case
	for ci := range c10Configs() {
		for _, anon := range []bool{false, true} {
			for _, l := range layouts {
				if anon && (l[0] == "writer" || l[1] == "writer" || l[2] == "writer") {
					continue // a grant to the other identity is exercised for anonymous by "reader" already
				}
				var init []c10Step
				for i, k := range l {
					if k == "public" {
						init = append(init, c10Step{"create-public", i})
						continue
					}
					init = append(init, c10Step{"create-private", i})
					if k == "reader" || k == "writer" {
						init = append(init, c10Step{"grant-" + k, i})
					}
				}
				rank := map[string]int{"public": 0, "private": 1, "reader": 2, "writer": 3}
				cases = append(cases, c10Case{Cfg: ci, Anon: anon, Steps: init, Deep: rank[l[0]] <= rank[l[1]] && rank[l[1]] <= rank[l[2]]})
			}
		}
	}
	st := &c10Stats{}
	ch := make(chan c10Case)
	var wg sync.WaitGroup
	var herr atomic.Value
	for w := 0; w < runtime.NumCPU(); w++ {
		wg.Add(1)
		go func() {
			defer wg.Done()
			for c := range ch {
				if err := c10Explore(r, st, c, depth); err != nil {
					herr.Store(err)
				}
			}
		}()
	}
	if mx := os.Getenv("VERIF_C10_MAX"); mx != "" {
		var n int
		fmt.Sscan(mx, &n)
		stride := len(cases)/n + 1
		var sub []c10Case
		for i := 0; i < len(cases); i += stride {
			sub = append(sub, cases[i])
		}
		cases = sub
		r.Coverage["development_subset"] = len(cases)
	}
	si, sn := rep.Shard()
	for i, c := range cases {
		if i%sn == si {
			ch <- c
		}
	}
	close(ch)
	wg.Wait()
	if e := herr.Load(); e != nil {
		rep.HarnessError("C10: %v", e)
	}
	nk, no := 0, 0
	st.kinds.Range(func(k, v any) bool { nk++; return true })
	st.outcomes.Range(func(k, v any) bool { no++; return true })
	r.Coverage["evaluations"] = st.requests
	r.Coverage["distinct_nontrivial"] = no
	if os.Getenv("VERIF_SHARD") != "" {
		var keys []string
		st.outcomes.Range(func(k, v any) bool {
			h := sha256.Sum256([]byte(fmt.Sprint(k)))
			keys = append(keys, hex.EncodeToString(h[:6]))
			return true
		})
		r.Coverage["distinct_keys"] = keys
	}
	r.Coverage["rule"] = "2 index configurations x requester in {second identity, anonymous} x every layout of 3 documents over {public, private, private+reader, private+writer} x every history of <=d further steps (d=2: from one layout per class under permutation of the documents; d=1 from every layout) over {grant/revoke reader/writer, owner update/delete, requester update/delete by id and by filter}; per state ~130 requests answered for the requester by the real database and by a twin that never held the unreadable documents; distinct = distinct (request kind, answer) pairs in states where at least one document is hidden from the requester"
	r.Coverage["worlds_real_plus_twin"] = st.worlds
	r.Coverage["history_steps"] = st.steps
	r.Coverage["requester_write_attempts"] = st.attempts
	r.Coverage["requests_in_states_with_hidden_documents"] = st.hidden
	r.Coverage["states_without_twin_comparison_because_visibility_changed_after_a_requester_write"] = st.skipped
	r.Coverage["request_kinds"] = nk
	r.Coverage["subscription_scripts"] = st.subs
	r.Coverage["history_depth_beyond_layout"] = depth
	r.Coverage["exhaustive"] = true
	r.Assumptions = []string{
		"the local document ACP engine (acp_core) decides permissions; its own store is outside the explored device",
		"the twin replays the same history without every operation on a document the requester cannot read in the final state",
		"GraphQL subscriptions: one script per layout (owner updates every document, then a sentinel), results awaited with a 60 s liveness deadline whose expiry is a harness error",
	}
	return r.Finish()
}

// build replays steps on a fresh world; only(i) filters documents (twin).
func c10Build(cfg c10Cfg, anon bool, steps []c10Step, keep func(doc int) bool, realIDs [3]string) (*c10World, *c10Model, error) {
	w, err := newC10World(cfg, anon)
	if err != nil {
		return nil, nil, err
	}
	m := &c10Model{Anon: anon}
	for _, s := range steps {
		all := strings.HasPrefix(s.Kind, "req-update-all") || strings.HasPrefix(s.Kind, "req-delete-all")
		if !all && !keep(s.Doc) {
			if strings.HasPrefix(s.Kind, "create-") {
				// the public R document that points to the hidden T document exists in the twin too
				_, errs := world.Exec(w.ctx, w.db, fmt.Sprintf(`mutation { create_R(input: {name: "r%d", t_id: %q}) { _docID } }`, s.Doc, realIDs[s.Doc]))
				if len(errs) > 0 {
					w.close()
					return nil, nil, fmt.Errorf("twin create R: %v", errs)
				}
			}
			continue
		}
		if _, _, err := w.apply(s); err != nil {
			w.close()
			return nil, nil, fmt.Errorf("%v: %w", s, err)
		}
		m.apply(s)
	}
	return w, m, nil
}

func c10Explore(r *rep.Run, st *c10Stats, c c10Case, depth int) error {
	cfg := c10Configs()[c.Cfg]
	var rec func(steps []c10Step, left int) error
	rec = func(steps []c10Step, left int) error {
		if err := c10CheckState(r, st, cfg, c.Anon, steps); err != nil {
			return err
		}
		if left == 0 {
			return nil
		}
		m := &c10Model{Anon: c.Anon}
		for _, s := range steps {
			m.apply(s)
		}
		for _, s := range c10Steps() {
			if !s.applicable(m) {
				continue
			}
			atomic.AddInt64(&st.steps, 1)
			if err := rec(append(append([]c10Step{}, steps...), s), left-1); err != nil {
				return err
			}
		}
		return nil
	}
	if err := c10Subscription(r, st, cfg, c.Anon, c.Steps); err != nil {
		return err
	}
	if depth > 1 && !c.Deep {
		depth = 1 // histories of two further steps only from one layout per permutation class
	}
	return rec(c.Steps, depth)
}

func c10OwnerDump(w *c10World) map[string]string {
	d, _ := world.Exec(w.owner, w.db, `query { T(showDeleted: true) { _docID _deleted u a s _version { cid } } }`)
	out := map[string]string{}
	for _, row := range world.Rows(d, "T") {
		out[fmt.Sprint(row["_docID"])] = world.Canon(row)
	}
	return out
}

func c10CheckState(r *rep.Run, st *c10Stats, cfg c10Cfg, anon bool, steps []c10Step) error {
	if os.Getenv("VERIF_C10_TIME") != "" {
		t0 := time.Now()
		defer func() { fmt.Fprintf(os.Stderr, "state %v: %v\n", steps, time.Since(t0)) }()
	}
	// the real world, step by step, watching requester write attempts
	real, err := newC10World(cfg, anon)
	if err != nil {
		return err
	}
	defer real.close()
	m := &c10Model{Anon: anon}
	atomic.AddInt64(&st.worlds, 2)
	var readableAtAttempts [][3]bool
	for si, s := range steps {
		isAttempt := strings.HasPrefix(s.Kind, "req-")
		if isAttempt {
			readableAtAttempts = append(readableAtAttempts, [3]bool{m.canRead(0), m.canRead(1), m.canRead(2)})
		}
		var before map[string]string
		if isAttempt && si == len(steps)-1 {
			before = c10OwnerDump(real)
		}
		if _, _, err := real.apply(s); err != nil {
			return fmt.Errorf("real %v: %w", steps, err)
		}
		if before != nil {
			atomic.AddInt64(&st.attempts, 1)
			after := c10OwnerDump(real)
			for i := range m.Docs {
				id := real.ids[i]
				protected := !m.canUpdate(i)
				if strings.Contains(s.Kind, "delete") {
					protected = !m.canDelete(i)
				}
				if protected && before[id] != after[id] {
					r.Violation(rep.Violation{Fingerprint: "C10:write-without-permission-changed-document:" + s.Kind,
						Summary: fmt.Sprintf("config %q anon=%v history %v: document d%d is not writable by the requester but changed\n  before %s\n  after  %s", cfg.Name, anon, steps, i, before[id], after[id]),
						Replay:  map[string]any{"config": cfg.Name, "anon": anon, "steps": steps}})
				}
			}
		}
		m.apply(s)
	}
	hiddenAny := false
	for i := range m.Docs {
		if m.Docs[i].Exists && !m.canRead(i) {
			hiddenAny = true
		}
	}
	// The twin projects the final visibility onto the whole history. That is only the right
	// reference when the requester's own writes happened under that same visibility: a document the
	// requester could read when it attempted a write legitimately influenced that attempt (e.g. an
	// update by filter fails as a whole on a readable document it may not update).
	final := [3]bool{m.canRead(0), m.canRead(1), m.canRead(2)}
	for _, r := range readableAtAttempts {
		if r != final {
			atomic.AddInt64(&st.skipped, 1)
			return nil
		}
	}
	twin, _, err := c10Build(cfg, anon, steps, func(i int) bool { return m.canRead(i) }, real.ids)
	if err != nil {
		return fmt.Errorf("twin %v: %w", steps, err)
	}
	defer twin.close()
	// commit cids as the owner sees them on the real database
	var cids []string
	d, _ := world.Exec(real.owner, real.db, `query { commits(fieldName: "_C") { cid } }`)
	for _, row := range world.Rows(d, "commits") {
		cids = append(cids, fmt.Sprint(row["cid"]))
	}
	sort.Strings(cids)
	for _, q := range c10Requests(real.ids, cids) {
		atomic.AddInt64(&st.requests, 1)
		rd, rerrs, hung, pan := world.ExecGuard(real.req, real.db, q.GQL)
		if hung || pan != nil {
			r.Violation(rep.Violation{Fingerprint: "C10:request-hangs-or-panics:" + q.Kind,
				Summary: fmt.Sprintf("config %q anon=%v history %v: %s hung=%v panic=%v", cfg.Name, anon, steps, q.GQL, hung, pan),
				Replay:  map[string]any{"config": cfg.Name, "anon": anon, "steps": steps, "request": q.GQL}})
			if hung {
				return nil // the database object is lost to the hanging request
			}
			continue
		}
		td, terrs := world.Exec(twin.req, twin.db, q.GQL)
		rc, tc := world.Canon(rd), world.Canon(td)
		st.kinds.LoadOrStore(q.Kind, true)
		if hiddenAny {
			atomic.AddInt64(&st.hidden, 1)
			if _, seen := st.outcomes.LoadOrStore(q.Kind+"#"+rc, true); !seen && q.Kind != "list" {
				r.Sample(map[string]any{"config": cfg.Name, "anonymous": anon, "history": fmt.Sprint(steps), "request": q.GQL, "answer_real_and_twin": rc})
			}
		}
		if rc != tc || (len(rerrs) > 0) != (len(terrs) > 0) {
			fp := "C10:answer-differs-from-twin:" + q.Kind
			if (q.Kind == "time-travel" || q.Kind == "commit-by-cid") && len(rerrs) == 0 && len(terrs) > 0 &&
				(rc == "{T:[]}" || rc == "{commits:[]}") {
				// nothing of the hidden document is returned; only "unknown cid" vs "empty" differs
				fp = "C10:cid-of-hidden-commit-answers-empty-instead-of-unknown"
			}
			r.Violation(rep.Violation{Fingerprint: fp,
				Summary: fmt.Sprintf("config %q anon=%v history %v: %s\n  real %s %v\n  twin %s %v", cfg.Name, anon, steps, q.GQL, rc, rerrs, tc, terrs),
				Replay:  map[string]any{"config": cfg.Name, "anon": anon, "steps": steps, "request": q.GQL, "real": rc, "twin": tc}})
		}
	}
	// collection API as the requester
	rcol, err1 := real.db.GetCollectionByName(real.req, "T")
	tcol, err2 := twin.db.GetCollectionByName(twin.req, "T")
	if err1 != nil || err2 != nil {
		return fmt.Errorf("collection: %v %v", err1, err2)
	}
	for i, id := range real.ids {
		if id == "" {
			continue
		}
		did, err := client.NewDocIDFromString(id)
		if err != nil {
			return err
		}
		atomic.AddInt64(&st.requests, 2)
		re, rerr := rcol.Exists(real.req, did)
		te, terr := tcol.Exists(twin.req, did)
		if re != te || (rerr != nil) != (terr != nil) {
			r.Violation(rep.Violation{Fingerprint: "C10:answer-differs-from-twin:Collection.Exists",
				Summary: fmt.Sprintf("config %q anon=%v history %v: Exists(d%d) real %v %v twin %v %v", cfg.Name, anon, steps, i, re, rerr, te, terr),
				Replay:  map[string]any{"config": cfg.Name, "anon": anon, "steps": steps, "request": "Exists"}})
		}
		rdoc, rerr := rcol.Get(real.req, did, true)
		tdoc, terr := tcol.Get(twin.req, did, true)
		rs, ts := "", ""
		if rerr == nil {
			mm, _ := rdoc.ToMap()
			rs = world.Canon(mm)
		}
		if terr == nil {
			mm, _ := tdoc.ToMap()
			ts = world.Canon(mm)
		}
		if rs != ts || (rerr != nil) != (terr != nil) {
			r.Violation(rep.Violation{Fingerprint: "C10:answer-differs-from-twin:Collection.Get",
				Summary: fmt.Sprintf("config %q anon=%v history %v: Get(d%d) real %s %v twin %s %v", cfg.Name, anon, steps, i, rs, rerr, ts, terr),
				Replay:  map[string]any{"config": cfg.Name, "anon": anon, "steps": steps, "request": "Get"}})
		}
	}
	ids := func(w *c10World, col client.Collection) string {
		ch, err := col.GetAllDocIDs(w.req)
		if err != nil {
			return "error"
		}
		var out []string
		for x := range ch {
			if x.Err != nil {
				out = append(out, "error")
			} else {
				out = append(out, x.ID.String())
			}
		}
		sort.Strings(out)
		return strings.Join(out, ",")
	}
	if a, b := ids(real, rcol), ids(twin, tcol); a != b {
		r.Violation(rep.Violation{Fingerprint: "C10:answer-differs-from-twin:Collection.GetAllDocIDs",
			Summary: fmt.Sprintf("config %q anon=%v history %v: real %s twin %s", cfg.Name, anon, steps, a, b),
			Replay:  map[string]any{"config": cfg.Name, "anon": anon, "steps": steps, "request": "GetAllDocIDs"}})
	}
	return nil
}

// c10Subscription: the requester subscribes; the owner then updates every document in turn and a
// sentinel public document last. The requester must receive exactly the updates of the documents
// it can read (what a database without the hidden documents would push), in order.
func c10Subscription(r *rep.Run, st *c10Stats, cfg c10Cfg, anon bool, steps []c10Step) error {
	w, m, err := c10Build(cfg, anon, steps, func(int) bool { return true }, [3]string{})
	if err != nil {
		return err
	}
	defer w.close()
	data, errs := world.Exec(w.ctx, w.db, `mutation { create_T(input: {u: 9, a: 0, s: "sentinel"}) { _docID } }`)
	if len(errs) > 0 {
		return fmt.Errorf("sentinel: %v", errs)
	}
	sid, _ := docIDOf(data, "create_T")
	sctx, cancel := context.WithCancel(w.req)
	defer cancel()
	res := w.db.ExecRequest(sctx, `subscription { T { u a s } }`)
	if len(res.GQL.Errors) > 0 || res.Subscription == nil {
		return fmt.Errorf("subscription: %v", res.GQL.Errors)
	}
	var want []string
	for i := range m.Docs {
		if !m.Docs[i].Exists || m.Docs[i].Deleted {
			continue
		}
		if _, errs := world.Exec(w.owner, w.db, fmt.Sprintf(`mutation { update_T(docID: %q, input: {a: 7}) { _docID } }`, w.ids[i])); len(errs) > 0 {
			return fmt.Errorf("owner update: %v", errs)
		}
		if m.canRead(i) {
			want = append(want, fmt.Sprintf(`{T:[{a:7,s:%q,u:%d}]}`, m.Docs[i].S, i))
		}
	}
	if _, errs := world.Exec(w.ctx, w.db, fmt.Sprintf(`mutation { update_T(docID: %q, input: {a: 5}) { _docID } }`, sid)); len(errs) > 0 {
		return fmt.Errorf("sentinel update: %v", errs)
	}
	var got []string
	for done := false; !done; {
		select {
		case x := <-res.Subscription:
			c := world.Canon(x.Data)
			if len(x.Errors) > 0 {
				c += fmt.Sprint(x.Errors)
			}
			if strings.Contains(c, "u:9") {
				done = true
			} else {
				got = append(got, c)
			}
		case <-time.After(60 * time.Second):
			rep.HarnessError("C10: the subscription did not deliver the sentinel update within 60 s (%v)", steps)
		}
	}
	atomic.AddInt64(&st.requests, 1)
	atomic.AddInt64(&st.subs, 1)
	if strings.Join(got, " ") != strings.Join(want, " ") {
		r.Violation(rep.Violation{Fingerprint: "C10:subscription-differs-from-readable-updates",
			Summary: fmt.Sprintf("config %q anon=%v layout %v: after the owner updated every document the requester's subscription delivered\n  %v\n  readable updates: %v", cfg.Name, anon, steps, got, want),
			Replay:  map[string]any{"config": cfg.Name, "anon": anon, "steps": steps, "request": "subscription"}})
	}
	return nil
}

func c10ReplayCmd(path string) int {
	b, err := os.ReadFile(path)
	if err != nil {
		rep.HarnessError("replay: %v", err)
	}
	var f struct {
		Replay struct {
			Config  string    `json:"config"`
			Anon    bool      `json:"anon"`
			Steps   []c10Step `json:"steps"`
			Request string    `json:"request"`
		} `json:"replay"`
	}
	if err := json.Unmarshal(b, &f); err != nil {
		rep.HarnessError("replay: %v", err)
	}
	for _, cfg := range c10Configs() {
		if cfg.Name != f.Replay.Config {
			continue
		}
		real, m, err := c10Build(cfg, f.Replay.Anon, f.Replay.Steps, func(int) bool { return true }, [3]string{})
		if err != nil {
			rep.HarnessError("replay: %v", err)
		}
		twin, _, err := c10Build(cfg, f.Replay.Anon, f.Replay.Steps, func(i int) bool { return m.canRead(i) }, real.ids)
		if err != nil {
			rep.HarnessError("replay: %v", err)
		}
		qs := append([]string{f.Replay.Request}, os.Args[5:]...)
		for _, q := range qs {
			if !strings.HasPrefix(q, "query") {
				continue
			}
			rd, rerrs := world.Exec(real.req, real.db, q)
			td, terrs := world.Exec(twin.req, twin.db, q)
			fmt.Printf("%s\n  real %s %v\n  twin %s %v\n", q, world.Canon(rd), rerrs, world.Canon(td), terrs)
		}
	}
	return 0
}
