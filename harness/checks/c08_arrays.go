package checks

// C08, aggregates over inline arrays: for documents holding [Int!] arrays every aggregate
// (_count _sum _min _max _avg) x inner filter x order x limit x offset is compared with a reference:
// filter the elements, order them if asked, skip `offset`, keep `limit`, aggregate.

import (
	"context"
	"fmt"
	"sort"
	"strings"

	"github.com/sourcenetwork/defradb/internal/verifh/rep"
	"github.com/sourcenetwork/defradb/internal/verifh/world"
)

func c08Arrays(r *rep.Run) (evals int) {
	ctx := context.Background()
	n, err := newQNode(`type T { u: Int  xs: [Int!] }`)
	if err != nil {
		rep.HarnessError("C08 arrays: %v", err)
	}
	defer n.db.Close()
	arrays := [][]int64{{}, {1}, {-1, 2, -3, 5, 1, 0}, {2, 2}, {5, 4, 3, 2, 1}, {0, 0, 7}, {3, -3}}
	var ins []string
	for u, a := range arrays {
		var xs []string
		for _, x := range a {
			xs = append(xs, fmt.Sprint(x))
		}
		ins = append(ins, fmt.Sprintf(`{u: %d, xs: [%s]}`, u, strings.Join(xs, ", ")))
	}
	if _, errs := world.Exec(ctx, n.db, fmt.Sprintf(`mutation { create_T(input: [%s]) { u } }`, strings.Join(ins, ", "))); len(errs) > 0 {
		rep.HarnessError("C08 arrays: %v", errs)
	}
	type flt struct {
		gql string
		ok  func(int64) bool
	}
	filters := []flt{
		{"", func(int64) bool { return true }},
		{`filter: {_gt: 0}`, func(x int64) bool { return x > 0 }},
		{`filter: {_ge: 2}`, func(x int64) bool { return x >= 2 }},
		{`filter: {_ne: 2}`, func(x int64) bool { return x != 2 }},
		{`filter: {_in: [1, 5]}`, func(x int64) bool { return x == 1 || x == 5 }},
		{`filter: {_lt: 0}`, func(x int64) bool { return x < 0 }},
	}
	for _, agg := range []string{"_count", "_sum", "_min", "_max", "_avg"} {
		for _, f := range filters {
			for _, ord := range []string{"", "ASC", "DESC"} {
				for _, lim := range []int{0, 1, 2} {
					for _, off := range []int{0, 1} {
						var args []string
						if agg != "_count" {
							args = append(args, "field: xs") // placeholder, replaced below
						}
						args = nil
						if f.gql != "" {
							args = append(args, f.gql)
						}
						if ord != "" {
							args = append(args, "order: "+ord)
						}
						if lim > 0 {
							args = append(args, fmt.Sprintf("limit: %d", lim))
						}
						if off > 0 {
							args = append(args, fmt.Sprintf("offset: %d", off))
						}
						req := fmt.Sprintf(`query { T { u r: %s(xs: {%s}) } }`, agg, strings.Join(args, ", "))
						data, errs, hung, pan := world.ExecGuard(ctx, n.db, req)
						evals++
						if hung || pan != nil {
							r.Violation(rep.Violation{Fingerprint: "C08:panic-or-hang:array-aggregate", Summary: fmt.Sprintf("%s: hung=%v panic=%v", req, hung, pan), Replay: map[string]any{"part": "arrays", "request": req}})
							continue
						}
						if len(errs) > 0 {
							// a rejected combination (e.g. order without limit on some aggregates) is not a wrong result
							continue
						}
						got := map[int]any{}
						for _, row := range world.Rows(data, "T") {
							got[int(toInt(row["u"]))] = row["r"]
						}
						for u, a := range arrays {
							var sel []int64
							for _, x := range a {
								if f.ok(x) {
									sel = append(sel, x)
								}
							}
							if ord == "ASC" {
								sort.Slice(sel, func(i, j int) bool { return sel[i] < sel[j] })
							} else if ord == "DESC" {
								sort.Slice(sel, func(i, j int) bool { return sel[i] > sel[j] })
							}
							if off > 0 {
								if off >= len(sel) {
									sel = nil
								} else {
									sel = sel[off:]
								}
							}
							if lim > 0 && len(sel) > lim {
								sel = sel[:lim]
							}
							if off > 0 && lim == 0 {
								continue // offset without limit: not pinned by the documentation
							}
							var want string
							switch agg {
							case "_count":
								want = fmt.Sprint(len(sel))
							case "_sum":
								var s int64
								for _, x := range sel {
									s += x
								}
								want = fmt.Sprint(s)
							case "_min", "_max":
								if len(sel) == 0 {
									want = "<nil>"
									break
								}
								m := sel[0]
								for _, x := range sel {
									if (agg == "_min" && x < m) || (agg == "_max" && x > m) {
										m = x
									}
								}
								want = fmt.Sprint(m)
							case "_avg":
								if len(sel) == 0 {
									want = "0"
									break
								}
								var s int64
								for _, x := range sel {
									s += x
								}
								want = fmt.Sprint(float64(s) / float64(len(sel)))
							}
							if g := fmt.Sprint(got[u]); g != want {
								shape := agg
								if f.gql != "" {
									shape += "+filter"
								}
								if ord != "" {
									shape += "+order"
								}
								if lim > 0 {
									shape += "+limit"
								}
								if off > 0 {
									shape += "+offset"
								}
								fp := "C08:array-aggregate:" + shape
								if agg == "_avg" && strings.Contains(f.gql, "_ne") {
									fp = "C08:avg-replaces-a-user-ne-condition-on-the-averaged-field"
								}
								r.Violation(rep.Violation{Fingerprint: fp,
									Summary: fmt.Sprintf("xs = %v: %s returns %s, reference (filter, order, offset, limit, aggregate) %s", a, req, g, want),
									Replay:  map[string]any{"part": "arrays", "request": req, "array": a}})
							}
						}
					}
				}
			}
		}
	}
	return evals
}
