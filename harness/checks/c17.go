package checks

import (
	"bytes"
	"context"
	"fmt"
	"math"
	"sort"
	"strconv"
	"strings"
	"time"

	"github.com/sourcenetwork/defradb/client"
	"github.com/sourcenetwork/defradb/internal/encoding"
	"github.com/sourcenetwork/defradb/internal/keys"
	"github.com/sourcenetwork/defradb/internal/verifh/rep"
	"github.com/sourcenetwork/defradb/internal/verifh/world"
)

func init() { Register("C17", runC17) }

type c17val struct {
	nv   client.NormalValue
	kind client.FieldKind
	text string
}

// cmp functions: value order per kind (null first).
func c17Ints() []int64 {
	set := map[int64]bool{0: true, 1: true, -1: true, math.MaxInt64: true, math.MinInt64: true}
	for k := 0; k < 63; k++ {
		p := int64(1) << uint(k)
		for _, v := range []int64{p, p - 1, p + 1, -p, -p - 1, -p + 1} {
			set[v] = true
		}
	}
	// encoding boundaries of the varint format
	for _, v := range []int64{109, 110, 111, 255, 256, 65535, 65536, -64, -65, -128, -129, -255, -256, -257} {
		set[v] = true
	}
	var out []int64
	for v := range set {
		out = append(out, v)
	}
	sort.Slice(out, func(i, j int) bool { return out[i] < out[j] })
	return out
}

func c17Floats() []float64 {
	base := []float64{0, math.Copysign(0, -1), math.SmallestNonzeroFloat64, -math.SmallestNonzeroFloat64,
		2.2250738585072014e-308, -2.2250738585072014e-308, 1, -1, 0.1, -0.1, 0.5, 1.5, 2, 1e10, -1e10, 1e100, -1e100,
		math.MaxFloat64, -math.MaxFloat64, math.Inf(1), math.Inf(-1), math.Pi, -math.E, 123456789.125, 9007199254740993}
	set := map[uint64]float64{}
	for _, v := range base {
		for _, x := range []float64{v, math.Nextafter(v, math.Inf(1)), math.Nextafter(v, math.Inf(-1))} {
			set[math.Float64bits(x)] = x
		}
	}
	var out []float64
	for _, v := range set {
		out = append(out, v)
	}
	sort.Slice(out, func(i, j int) bool {
		if out[i] == out[j] {
			return math.Signbit(out[i]) && !math.Signbit(out[j])
		}
		return out[i] < out[j]
	})
	return out
}

func c17Float32s() []float32 {
	base := []float32{0, float32(math.Copysign(0, -1)), math.SmallestNonzeroFloat32, -math.SmallestNonzeroFloat32, 1.17549435e-38, -1.17549435e-38,
		1, -1, 0.1, -0.1, 2, 1e10, -1e10, math.MaxFloat32, -math.MaxFloat32, float32(math.Inf(1)), float32(math.Inf(-1)), 3.14159, 16777217}
	set := map[uint32]float32{}
	for _, v := range base {
		for _, x := range []float32{v, math.Nextafter32(v, float32(math.Inf(1))), math.Nextafter32(v, float32(math.Inf(-1)))} {
			set[math.Float32bits(x)] = x
		}
	}
	var out []float32
	for _, v := range set {
		out = append(out, v)
	}
	sort.Slice(out, func(i, j int) bool {
		if out[i] == out[j] {
			return math.Signbit(float64(out[i])) && !math.Signbit(float64(out[j]))
		}
		return out[i] < out[j]
	})
	return out
}

func c17Strings() []string {
	return []string{"", "\x00", "\x00\x00", "\x00\x01", "\x00\xff", "\x01", "a", "a\x00", "a\x00b", "a\x01", "aa", "ab", "b", "\x7f", "\x80", "\xfe", "\xff", "\xff\x00", "\xff\xff",
		"\xff\xff\xff", "é", "日本", "z", "A", "a/b", "/", "a\x00\x00", "\x00a", "~", "a\xff", "a\xffb"}
}

func c17Times() []time.Time {
	var out []time.Time
	for _, s := range []int64{0, 1, -1, 1e9, -1e9, 253402300799, -62135596800, 1700000000, 1 << 31, -(1 << 31), 1 << 40} {
		for _, ns := range []int64{0, 1, 999999999, 500000000} {
			out = append(out, time.Unix(s, ns).UTC())
		}
	}
	out = append(out, time.Time{}, time.Date(2024, 2, 29, 23, 59, 59, 999999999, time.FixedZone("x", 5*3600)))
	sort.Slice(out, func(i, j int) bool { return out[i].Before(out[j]) })
	return out
}

func sign(x int) int {
	switch {
	case x < 0:
		return -1
	case x > 0:
		return 1
	}
	return 0
}

func runC17(args []string) int {
	r := rep.New("C17", "exploration")
	evals, nontrivial := 0, 0
	viol := func(class, detail string, replay map[string]any) {
		r.Violation(rep.Violation{Fingerprint: "C17:" + class, Summary: detail, Replay: replay})
	}
	// one generic all-pairs routine per kind: vals are in value order; eq says whether two values are
	// equal as values (then their encodings may coincide)
	type kindSet struct {
		name string
		kind client.FieldKind
		vals []client.NormalValue
		text []string
		cmp  func(i, j int) int
		same func(a, b client.NormalValue) bool
	}
	var sets []kindSet
	{
		ints := c17Ints()
		ks := kindSet{name: "Int", kind: client.FieldKind_NILLABLE_INT}
		for _, v := range ints {
			ks.vals = append(ks.vals, client.NewNormalInt(v))
			ks.text = append(ks.text, fmt.Sprint(v))
		}
		ks.cmp = func(i, j int) int { return sign(bcmp(ints[i], ints[j])) }
		ks.same = func(a, b client.NormalValue) bool { x, _ := a.Int(); y, ok := b.Int(); return ok && x == y }
		sets = append(sets, ks)
	}
	{
		fs := c17Floats()
		ks := kindSet{name: "Float64", kind: client.FieldKind_NILLABLE_FLOAT64}
		for _, v := range fs {
			ks.vals = append(ks.vals, client.NewNormalFloat64(v))
			ks.text = append(ks.text, fmt.Sprintf("%g(%016x)", v, math.Float64bits(v)))
		}
		ks.cmp = func(i, j int) int {
			switch {
			case fs[i] < fs[j]:
				return -1
			case fs[i] > fs[j]:
				return 1
			}
			return 0
		}
		ks.same = func(a, b client.NormalValue) bool { x, _ := a.Float64(); y, ok := b.Float64(); return ok && x == y }
		sets = append(sets, ks)
	}
	{
		fs := c17Float32s()
		ks := kindSet{name: "Float32", kind: client.FieldKind_NILLABLE_FLOAT32}
		for _, v := range fs {
			ks.vals = append(ks.vals, client.NewNormalFloat32(v))
			ks.text = append(ks.text, fmt.Sprintf("%g(%08x)", v, math.Float32bits(v)))
		}
		ks.cmp = func(i, j int) int {
			switch {
			case fs[i] < fs[j]:
				return -1
			case fs[i] > fs[j]:
				return 1
			}
			return 0
		}
		ks.same = func(a, b client.NormalValue) bool { x, _ := a.Float32(); y, ok := b.Float32(); return ok && x == y }
		sets = append(sets, ks)
	}
	{
		ss := c17Strings()
		sort.Strings(ss)
		ks := kindSet{name: "String", kind: client.FieldKind_NILLABLE_STRING}
		for _, v := range ss {
			ks.vals = append(ks.vals, client.NewNormalString(v))
			ks.text = append(ks.text, fmt.Sprintf("%q", v))
		}
		ks.cmp = func(i, j int) int { return sign(strings.Compare(ss[i], ss[j])) }
		ks.same = func(a, b client.NormalValue) bool { x, _ := a.String(); y, ok := b.String(); return ok && x == y }
		sets = append(sets, ks)
	}
	{
		ts := c17Times()
		ks := kindSet{name: "DateTime", kind: client.FieldKind_NILLABLE_DATETIME}
		for _, v := range ts {
			ks.vals = append(ks.vals, client.NewNormalTime(v))
			ks.text = append(ks.text, v.Format(time.RFC3339Nano))
		}
		ks.cmp = func(i, j int) int { return sign(ts[i].Compare(ts[j])) }
		ks.same = func(a, b client.NormalValue) bool { x, _ := a.Time(); y, ok := b.Time(); return ok && x.Equal(y) }
		sets = append(sets, ks)
	}
	{
		ks := kindSet{name: "Bool", kind: client.FieldKind_NILLABLE_BOOL, vals: []client.NormalValue{client.NewNormalBool(false), client.NewNormalBool(true)}, text: []string{"false", "true"}}
		ks.cmp = func(i, j int) int { return sign(i - j) }
		ks.same = func(a, b client.NormalValue) bool { x, _ := a.Bool(); y, ok := b.Bool(); return ok && x == y }
		sets = append(sets, ks)
	}
	for _, ks := range sets {
		nilv, err := client.NewNormalNil(ks.kind)
		if err != nil {
			rep.HarnessError("%v", err)
		}
		for _, desc := range []bool{false, true} {
			encs := make([][]byte, len(ks.vals))
			for i, v := range ks.vals {
				encs[i] = encoding.EncodeFieldValue(nil, v, desc)
				// round trip
				rest, back, err := encoding.DecodeFieldValue(encs[i], desc, ks.kind)
				evals++
				if err != nil || len(rest) != 0 || !ks.same(v, back) {
					viol("roundtrip:"+ks.name, fmt.Sprintf("%s %s desc=%v: decode(encode(v)) = %v (err %v, %d bytes left)", ks.name, ks.text[i], desc, back, err, len(rest)),
						map[string]any{"engine": "c17", "kind": ks.name, "value": ks.text[i], "descending": desc})
				}
			}
			nenc := encoding.EncodeFieldValue(nil, nilv, desc)
			for i := range ks.vals {
				// null sorts first (ascending) / last (descending)
				c := sign(bytes.Compare(nenc, encs[i]))
				want := -1
				if desc {
					want = 1
				}
				evals++
				if c != want {
					viol("null-order:"+ks.name, fmt.Sprintf("%s desc=%v: null vs %s compares %d, want %d", ks.name, desc, ks.text[i], c, want),
						map[string]any{"engine": "c17", "kind": ks.name, "value": ks.text[i], "descending": desc})
				}
				for j := range ks.vals {
					want := ks.cmp(i, j)
					if desc {
						want = -want
					}
					got := sign(bytes.Compare(encs[i], encs[j]))
					evals++
					if want != 0 {
						nontrivial++
					}
					if got != want {
						viol("order:"+ks.name, fmt.Sprintf("%s desc=%v: %s vs %s: encodings compare %d, values compare %d", ks.name, desc, ks.text[i], ks.text[j], got, want),
							map[string]any{"engine": "c17", "kind": ks.name, "a": ks.text[i], "b": ks.text[j], "descending": desc})
					}
				}
			}
		}
	}
	// composite tuples through the real index key codec: (Int, String) x directions, reduced alphabets
	{
		ints := []int64{math.MinInt64, -256, -1, 0, 1, 110, 255, math.MaxInt64}
		strs := []string{"", "\x00", "\x00\x01", "a", "a\x00", "a/", "/", "\xff"}
		fields := []client.FieldDefinition{{Name: "i", Kind: client.FieldKind_NILLABLE_INT}, {Name: "s", Kind: client.FieldKind_NILLABLE_STRING}}
		type tup struct {
			i   *int64
			s   *string
			txt string
		}
		var tups []tup
		for ii := -1; ii < len(ints); ii++ {
			for si := -1; si < len(strs); si++ {
				t := tup{}
				if ii >= 0 {
					t.i = &ints[ii]
				}
				if si >= 0 {
					t.s = &strs[si]
				}
				t.txt = fmt.Sprintf("(%v,%q)", ptrI(t.i), ptrS(t.s))
				tups = append(tups, t)
			}
		}
		cmpT := func(a, b tup, d0, d1 bool) int {
			ci := 0
			switch {
			case a.i == nil && b.i == nil:
			case a.i == nil:
				ci = -1
			case b.i == nil:
				ci = 1
			default:
				ci = sign(bcmp(*a.i, *b.i))
			}
			if d0 {
				ci = -ci
			}
			if ci != 0 {
				return ci
			}
			cs := 0
			switch {
			case a.s == nil && b.s == nil:
			case a.s == nil:
				cs = -1
			case b.s == nil:
				cs = 1
			default:
				cs = sign(strings.Compare(*a.s, *b.s))
			}
			if d1 {
				cs = -cs
			}
			return cs
		}
		for _, d0 := range []bool{false, true} {
			for _, d1 := range []bool{false, true} {
				desc := &client.IndexDescription{Fields: []client.IndexedFieldDescription{{Name: "i", Descending: d0}, {Name: "s", Descending: d1}}}
				enc := make([][]byte, len(tups))
				for k, t := range tups {
					var iv, sv client.NormalValue
					if t.i == nil {
						iv, _ = client.NewNormalNil(client.FieldKind_NILLABLE_INT)
					} else {
						iv = client.NewNormalInt(*t.i)
					}
					if t.s == nil {
						sv, _ = client.NewNormalNil(client.FieldKind_NILLABLE_STRING)
					} else {
						sv = client.NewNormalString(*t.s)
					}
					key := keys.NewIndexDataStoreKey(1, 1, []keys.IndexedField{{Value: iv, Descending: d0}, {Value: sv, Descending: d1}, {Value: client.NewNormalString("bae-docid")}})
					enc[k] = keys.EncodeIndexDataStoreKey(&key)
					back, err := keys.DecodeIndexDataStoreKey(enc[k], desc, fields)
					evals++
					ok := err == nil && len(back.Fields) == 3
					if ok {
						bi, iok := back.Fields[0].Value.Int()
						bs, sok := back.Fields[1].Value.String()
						ok = (t.i == nil && back.Fields[0].Value.IsNil() || t.i != nil && iok && bi == *t.i) &&
							(t.s == nil && back.Fields[1].Value.IsNil() || t.s != nil && sok && bs == *t.s)
						if id, _ := back.Fields[2].Value.String(); id != "bae-docid" {
							ok = false
						}
					}
					if !ok {
						viol("tuple-key-roundtrip", fmt.Sprintf("tuple %s directions (%v,%v): index key does not split back into its components: %+v err=%v", t.txt, d0, d1, back.Fields, err),
							map[string]any{"engine": "c17", "tuple": t.txt, "desc": []bool{d0, d1}})
					}
				}
				for a := range tups {
					for b := range tups {
						want := cmpT(tups[a], tups[b], d0, d1)
						got := sign(bytes.Compare(enc[a], enc[b]))
						evals++
						if want != 0 {
							nontrivial++
						}
						if got != want {
							viol("tuple-order", fmt.Sprintf("tuples %s vs %s directions (%v,%v): keys compare %d, component-wise value order %d", tups[a].txt, tups[b].txt, d0, d1, got, want),
								map[string]any{"engine": "c17", "a": tups[a].txt, "b": tups[b].txt, "desc": []bool{d0, d1}})
						}
					}
				}
			}
		}
	}
	for _, ks := range sets {
		i, j := len(ks.vals)/3, 2*len(ks.vals)/3
		r.Sample(map[string]any{"kind": ks.name, "a": ks.text[i], "b": ks.text[j],
			"enc_a_asc": fmt.Sprintf("%x", encoding.EncodeFieldValue(nil, ks.vals[i], false)), "enc_b_asc": fmt.Sprintf("%x", encoding.EncodeFieldValue(nil, ks.vals[j], false)),
			"enc_a_desc": fmt.Sprintf("%x", encoding.EncodeFieldValue(nil, ks.vals[i], true))})
	}
	e2e := c17EndToEnd(r)
	r.Coverage["evaluations"] = evals + e2e
	r.Coverage["distinct_nontrivial"] = nontrivial
	r.Coverage["rule"] = "all ordered pairs of a per-kind boundary alphabet x {asc,desc} through EncodeFieldValue/DecodeFieldValue, all pairs of (Int,String) tuples incl. nulls x 4 direction combinations through Encode/DecodeIndexDataStoreKey; non-trivial = pairs of unequal values; plus index-backed range filters and order at every alphabet value against the scan twin"
	r.Coverage["alphabet_sizes"] = map[string]int{"Int": len(c17Ints()), "Float64": len(c17Floats()), "Float32": len(c17Float32s()), "String": len(c17Strings()), "DateTime": len(c17Times())}
	r.Coverage["end_to_end_requests"] = e2e
	r.Coverage["exhaustive"] = true
	r.Assumptions = []string{"value equality for floats is IEEE == (so -0 and +0 are one value: they share an encoding by design and read back as +0)"}
	return r.Finish()
}

func bcmp(a, b int64) int {
	switch {
	case a < b:
		return -1
	case a > b:
		return 1
	}
	return 0
}

func ptrI(p *int64) string {
	if p == nil {
		return "null"
	}
	return fmt.Sprint(*p)
}
func ptrS(p *string) string {
	if p == nil {
		return "null"
	}
	return *p
}

// c17EndToEnd: a collection holding the alphabet of a kind in an indexed column; index-backed
// _gt/_ge/_lt/_le at every alphabet value and order asc/desc must equal the scan twin.
func c17EndToEnd(r *rep.Run) int {
	ctx := context.Background()
	n := 0
	type col struct {
		kind string
		lits []string // GraphQL literals in value order
	}
	var cols []col
	{
		c := col{kind: "Int"}
		ints := c17Ints()
		step := 1
		if rep.Tier() != "thorough" {
			step = 6
		}
		for i := 0; i < len(ints); i += step {
			c.lits = append(c.lits, fmt.Sprint(ints[i]))
		}
		cols = append(cols, c)
	}
	{
		c := col{kind: "Float"}
		for _, f := range c17Floats() {
			if math.IsInf(f, 0) || f == 0 && math.Signbit(f) {
				continue
			}
			c.lits = append(c.lits, fmt.Sprintf("%g", f))
		}
		if rep.Tier() != "thorough" {
			var red []string
			for i := 0; i < len(c.lits); i += 3 {
				red = append(red, c.lits[i])
			}
			c.lits = red
		}
		cols = append(cols, c)
	}
	{
		c := col{kind: "String"}
		ss := []string{"", "a", "a b", "aa", "ab", "b", "é", "日本", "z", "A", "a/b", "/", "~"}
		sort.Strings(ss)
		for _, s := range ss {
			c.lits = append(c.lits, fmt.Sprintf("%q", s))
		}
		cols = append(cols, c)
	}
	{
		c := col{kind: "DateTime"}
		for _, t := range c17Times() {
			if t.Year() <= 1 || t.Year() > 9998 {
				continue // the zero time has its own probe below
			}
			c.lits = append(c.lits, fmt.Sprintf("%q", t.Format(time.RFC3339Nano)))
		}
		if rep.Tier() != "thorough" {
			var red []string
			for i := 0; i < len(c.lits); i += 3 {
				red = append(red, c.lits[i])
			}
			c.lits = red
		}
		cols = append(cols, c)
	}
	// the zero DateTime: written as a value, must not be conflated with null by one path only
	{
		plain, err := newQNode(`type T { u: Int  v: DateTime }`)
		if err != nil {
			rep.HarnessError("%v", err)
		}
		ix, err := newQNode(`type T { u: Int  v: DateTime @index }`)
		if err != nil {
			rep.HarnessError("%v", err)
		}
		req := `mutation { create_T(input: [{u: 0, v: "0001-01-01T00:00:00Z"}, {u: 1, v: "2001-01-01T00:00:00Z"}, {u: 2}]) { _docID } }`
		world.Exec(ctx, plain.db, req)
		world.Exec(ctx, ix.db, req)
		for _, q := range []string{`query { T(filter: {v: {_eq: null}}) { u } }`, `query { T(filter: {v: {_ne: null}}) { u } }`, `query { T(filter: {v: {_eq: "0001-01-01T00:00:00Z"}}) { u } }`,
			`query { T(filter: {v: {_ne: "0001-01-01T00:00:00Z"}}) { u } }`, `query { T(filter: {v: {_le: "0001-01-01T00:00:00Z"}}) { u } }`} {
			da, _ := world.Exec(ctx, plain.db, q)
			db2, _ := world.Exec(ctx, ix.db, q)
			n++
			a, b := fmt.Sprint(sortedInts(us(world.Rows(da, "T")))), fmt.Sprint(sortedInts(us(world.Rows(db2, "T"))))
			if a != b {
				r.Violation(rep.Violation{Fingerprint: "C17:zero-datetime-null-conflation", Summary: fmt.Sprintf("document written with v=0001-01-01T00:00:00Z: request %s: scan u=%s, index u=%s", q, a, b),
					Replay: map[string]any{"engine": "c17-e2e", "request": q}})
			}
		}
		plain.db.Close()
		ix.db.Close()
	}
	for _, c := range cols {
		for _, desc := range []bool{false, true} {
			dir := ""
			if desc {
				dir = "(direction: DESC)"
			}
			plain, err := newQNode(fmt.Sprintf(`type T { u: Int  v: %s }`, c.kind))
			if err != nil {
				rep.HarnessError("%v", err)
			}
			ix, err := newQNode(fmt.Sprintf(`type T { u: Int  v: %s @index%s }`, c.kind, dir))
			if err != nil {
				rep.HarnessError("%v", err)
			}
			// documents are created through the collection API (GraphQL Int literals are 32 bit)
			for _, nd := range []*qnode{plain, ix} {
				colT, err := nd.db.GetCollectionByName(ctx, "T")
				if err != nil {
					rep.HarnessError("%v", err)
				}
				for i, l := range append(append([]string{}, c.lits...), "null") {
					doc, err := client.NewDocFromJSON([]byte(fmt.Sprintf(`{"u": %d, "v": %s}`, i, l)), colT.Definition())
					if err != nil {
						rep.HarnessError("%s %s: %v", c.kind, l, err)
					}
					if err := colT.Create(ctx, doc); err != nil {
						rep.HarnessError("%s %s: %v", c.kind, l, err)
					}
				}
			}
			cmp := func(q string, ordered bool) {
				da, ea := world.Exec(ctx, plain.db, q)
				db2, eb := world.Exec(ctx, ix.db, q)
				n++
				var a, b string
				if ordered {
					a, b = fmt.Sprint(us(world.Rows(da, "T"))), fmt.Sprint(us(world.Rows(db2, "T")))
				} else {
					a, b = fmt.Sprint(sortedInts(us(world.Rows(da, "T")))), fmt.Sprint(sortedInts(us(world.Rows(db2, "T"))))
				}
				if a != b || strings.Join(ea, ";") != strings.Join(eb, ";") {
					r.Violation(rep.Violation{Fingerprint: fmt.Sprintf("C17:index-vs-scan:%s:desc=%v", c.kind, desc), Summary: fmt.Sprintf("%s desc=%v request %s: scan u=%s %v, index u=%s %v", c.kind, desc, q, a, ea, b, eb),
						Replay: map[string]any{"engine": "c17-e2e", "kind": c.kind, "descending": desc, "request": q}})
				}
			}
			for _, l := range c.lits {
				if c.kind == "Int" {
					if v, err := strconv.ParseInt(l, 10, 64); err != nil || v > math.MaxInt32 || v < math.MinInt32 {
						continue // not expressible as a GraphQL Int literal
					}
				}
				for _, op := range []string{"_gt", "_ge", "_lt", "_le", "_eq", "_ne"} {
					cmp(fmt.Sprintf(`query { T(filter: {v: {%s: %s}}) { u } }`, op, l), false)
				}
			}
			// written order equals value order and all values are distinct => total order
			cmp(`query { T(order: {v: ASC}) { u } }`, true)
			cmp(`query { T(order: {v: DESC}) { u } }`, true)
			// and the index-backed order must be the value order itself
			data, _ := world.Exec(ctx, ix.db, `query { T(order: {v: ASC}, filter: {v: {_ne: null}}) { u } }`)
			n++
			got := us(world.Rows(data, "T"))
			if !sort.IntsAreSorted(got) || len(got) != len(c.lits) {
				r.Violation(rep.Violation{Fingerprint: fmt.Sprintf("C17:index-order-not-value-order:%s:desc=%v", c.kind, desc), Summary: fmt.Sprintf("%s desc=%v: order ASC over the index returns u=%v (u numbers the values in value order)", c.kind, desc, got),
					Replay: map[string]any{"engine": "c17-e2e", "kind": c.kind, "descending": desc}})
			}
			plain.db.Close()
			ix.db.Close()
		}
	}
	return n
}
