package checks

// C12 — commit signatures authenticate content and author; forged commits are not merged
// (DESIGN.md §4 C12).
//
// For both key types and a small set of document histories, every signed block the history
// produces is (a) verified with the author's key (must pass) and with every other key (must fail);
// (b) subjected to every single-field tampering of the block and of its signature block; each
// tampered block, re-filed under its new cid with the signature link kept, must fail verification
// under every key, and when it is pushed through the real receive path (syncDAG over a block service
// that serves the sender's blocks, then the merge) the call must fail and the receiver's documents,
// commit history and heads must stay exactly as they were.

import (
	"context"
	"encoding/json"
	"fmt"
	"os"
	"sort"
	"strings"
	"sync"
	"sync/atomic"
	"time"

	"github.com/ipfs/boxo/blockservice"
	cid "github.com/ipfs/go-cid"
	"github.com/ipld/go-ipld-prime/linking"
	cidlink "github.com/ipld/go-ipld-prime/linking/cid"
	"github.com/ipld/go-ipld-prime/storage/bsadapter"
	"github.com/sourcenetwork/immutable"

	"github.com/sourcenetwork/defradb/acp/identity"
	"github.com/sourcenetwork/defradb/crypto"
	"github.com/sourcenetwork/defradb/event"
	coreblock "github.com/sourcenetwork/defradb/internal/core/block"
	"github.com/sourcenetwork/defradb/internal/core/crdt"
	"github.com/sourcenetwork/defradb/internal/datastore"
	"github.com/sourcenetwork/defradb/internal/db"
	"github.com/sourcenetwork/defradb/internal/encryption"
	defranet "github.com/sourcenetwork/defradb/net"

	"github.com/sourcenetwork/defradb/internal/verifh/crdtx"
	"github.com/sourcenetwork/defradb/internal/verifh/rep"
	"github.com/sourcenetwork/defradb/internal/verifh/vkv"
	"github.com/sourcenetwork/defradb/internal/verifh/world"
)

func init() { Register("C12", runC12) }

const c12SDL = `type U { name: String  n: Int  c: Int @crdt(type: pncounter) }`

type c12Node struct {
	st    *vkv.Store
	db    *db.DB
	base  vkv.Snap
	colID string
}

func newC12Node(signing bool) (*c12Node, error) {
	ctx := context.Background()
	st := vkv.NewStore()
	d, err := world.NewDB(ctx, st, db.WithEnabledSigning(signing))
	if err != nil {
		return nil, err
	}
	cols, err := d.AddSchema(ctx, c12SDL)
	if err != nil {
		return nil, err
	}
	// a merge that meets an encrypted block asks for keys and waits: answer "no key" at once
	ksub, err := d.Events().Subscribe(encryption.RequestKeysEventName)
	if err != nil {
		return nil, err
	}
	go func() {
		for m := range ksub.Message() {
			if req, ok := m.Data.(encryption.RequestKeysEvent); ok {
				req.Resp <- encryption.Result{}
			}
		}
	}()
	return &c12Node{st: st, db: d, base: st.Snapshot(), colID: cols[0].CollectionID}, nil
}

type c12Hist struct {
	Name string
	Ops  []string // GraphQL mutations; %s = docID for updates
}

func c12Histories() []c12Hist {
	return []c12Hist{
		{"create", []string{`mutation { create_U(input: {name: "alice", n: 1, c: 5}) { _docID } }`}},
		{"create+update", []string{`mutation { create_U(input: {name: "alice", n: 1, c: 5}) { _docID } }`, `mutation { update_U(docID: "%s", input: {name: "bob", c: 2}) { _docID } }`}},
		{"create+update+delete", []string{`mutation { create_U(input: {name: "alice"}) { _docID } }`, `mutation { update_U(docID: "%s", input: {n: 7}) { _docID } }`, `mutation { delete_U(docID: "%s") { _docID } }`}},
		{"create+2 updates", []string{`mutation { create_U(input: {n: 3}) { _docID } }`, `mutation { update_U(docID: "%s", input: {n: 4}) { _docID } }`, `mutation { update_U(docID: "%s", input: {name: "x", n: null}) { _docID } }`}},
	}
}

type c12Stats struct {
	ancestors, controls, signedBlocks, verifyOK, verifyOtherKey, tamperings, tamperVerify, received, unsignedBlocks int64
	kinds                                                                                 sync.Map
}

type c12Tamper struct {
	Kind  string
	Block *coreblock.Block     // tampered block (signature link kept or re-pointed)
	Sig   *coreblock.Signature // tampered signature block to store (nil = original)
}

func cloneBlock(b *coreblock.Block) *coreblock.Block {
	raw, _ := b.Marshal()
	nb, err := coreblock.GetFromBytes(raw)
	if err != nil {
		panic(err)
	}
	return nb
}

func flipped(b []byte, i int) []byte {
	out := append([]byte{}, b...)
	out[i] ^= 0x01
	return out
}

// c12Tamperings enumerates every single-field change of block b and of its signature block sig.
// others are cids of other blocks of the same store (to re-point links at).
func c12Tamperings(b *coreblock.Block, sig *coreblock.Signature, others []cid.Cid, otherKeys []crypto.PublicKey) []c12Tamper {
	var out []c12Tamper
	add := func(kind string, f func(nb *coreblock.Block)) {
		nb := cloneBlock(b)
		f(nb)
		out = append(out, c12Tamper{Kind: kind, Block: nb})
	}
	switch {
	case b.Delta.LWWDelta != nil:
		d := b.Delta.LWWDelta
		for i := range d.Data {
			i := i
			add("delta.data byte", func(nb *coreblock.Block) { nb.Delta.LWWDelta.Data = flipped(d.Data, i) })
		}
		add("delta.data truncated", func(nb *coreblock.Block) { nb.Delta.LWWDelta.Data = d.Data[:len(d.Data)/2] })
		for i := range d.DocID {
			i := i
			add("delta.docID byte", func(nb *coreblock.Block) { nb.Delta.LWWDelta.DocID = flipped(d.DocID, i) })
		}
		add("delta.fieldName", func(nb *coreblock.Block) { nb.Delta.LWWDelta.FieldName = "n" + d.FieldName })
		add("delta.fieldName other field", func(nb *coreblock.Block) {
			if d.FieldName == "name" {
				nb.Delta.LWWDelta.FieldName = "n"
			} else {
				nb.Delta.LWWDelta.FieldName = "name"
			}
		})
		add("delta.priority+1", func(nb *coreblock.Block) { nb.Delta.LWWDelta.Priority++ })
		add("delta.priority-1", func(nb *coreblock.Block) { nb.Delta.LWWDelta.Priority-- })
		for _, i := range []int{0, len(d.SchemaVersionID) / 2, len(d.SchemaVersionID) - 1} {
			i := i
			add("delta.schemaVersionID byte", func(nb *coreblock.Block) {
				nb.Delta.LWWDelta.SchemaVersionID = string(flipped([]byte(d.SchemaVersionID), i))
			})
		}
	case b.Delta.CounterDelta != nil:
		d := b.Delta.CounterDelta
		for i := range d.Data {
			i := i
			add("delta.data byte", func(nb *coreblock.Block) { nb.Delta.CounterDelta.Data = flipped(d.Data, i) })
		}
		add("delta.nonce", func(nb *coreblock.Block) { nb.Delta.CounterDelta.Nonce++ })
		add("delta.priority+1", func(nb *coreblock.Block) { nb.Delta.CounterDelta.Priority++ })
		add("delta.fieldName", func(nb *coreblock.Block) { nb.Delta.CounterDelta.FieldName = "n" })
		for i := range d.DocID {
			i := i
			add("delta.docID byte", func(nb *coreblock.Block) { nb.Delta.CounterDelta.DocID = flipped(d.DocID, i) })
		}
	case b.Delta.DocCompositeDelta != nil:
		d := b.Delta.DocCompositeDelta
		for i := range d.DocID {
			i := i
			add("delta.docID byte", func(nb *coreblock.Block) { nb.Delta.DocCompositeDelta.DocID = flipped(d.DocID, i) })
		}
		add("delta.priority+1", func(nb *coreblock.Block) { nb.Delta.DocCompositeDelta.Priority++ })
		add("delta.priority-1", func(nb *coreblock.Block) { nb.Delta.DocCompositeDelta.Priority-- })
		add("delta.status (delete flag)", func(nb *coreblock.Block) { nb.Delta.DocCompositeDelta.Status ^= 1 })
		for _, i := range []int{0, len(d.SchemaVersionID) / 2, len(d.SchemaVersionID) - 1} {
			i := i
			add("delta.schemaVersionID byte", func(nb *coreblock.Block) {
				nb.Delta.DocCompositeDelta.SchemaVersionID = string(flipped([]byte(d.SchemaVersionID), i))
			})
		}
	}
	for i := range b.Heads {
		i := i
		add("head removed", func(nb *coreblock.Block) { nb.Heads = append(nb.Heads[:i:i], nb.Heads[i+1:]...) })
		add("head duplicated", func(nb *coreblock.Block) { nb.Heads = append(nb.Heads, nb.Heads[i]) })
		for _, o := range others {
			o := o
			if o != b.Heads[i].Cid {
				add("head replaced", func(nb *coreblock.Block) { nb.Heads[i] = cidlink.Link{Cid: o} })
			}
		}
	}
	if len(others) > 0 {
		add("head added", func(nb *coreblock.Block) { nb.Heads = append(nb.Heads, cidlink.Link{Cid: others[0]}) })
	}
	for i := range b.Links {
		i := i
		add("link removed", func(nb *coreblock.Block) { nb.Links = append(nb.Links[:i:i], nb.Links[i+1:]...) })
		add("link duplicated", func(nb *coreblock.Block) { nb.Links = append(nb.Links, nb.Links[i]) })
		add("link name", func(nb *coreblock.Block) { nb.Links[i].Name = nb.Links[i].Name + "x" })
		for _, o := range others {
			o := o
			if o != b.Links[i].Link.Cid {
				add("link replaced", func(nb *coreblock.Block) { nb.Links[i].Link = cidlink.Link{Cid: o} })
			}
		}
	}
	if len(others) > 0 {
		add("link added", func(nb *coreblock.Block) {
			nb.Links = append(nb.Links, coreblock.DAGLink{Name: "n", Link: cidlink.Link{Cid: others[0]}})
		})
		if b.Encryption == nil {
			add("encryption link added", func(nb *coreblock.Block) { nb.Encryption = &cidlink.Link{Cid: others[0]} })
		}
	}
	// the signature block
	addSig := func(kind string, f func(ns *coreblock.Signature)) {
		ns := &coreblock.Signature{Header: coreblock.SignatureHeader{Type: sig.Header.Type, Identity: append([]byte{}, sig.Header.Identity...)}, Value: append([]byte{}, sig.Value...)}
		f(ns)
		out = append(out, c12Tamper{Kind: kind, Block: cloneBlock(b), Sig: ns})
	}
	for i := range sig.Value {
		i := i
		addSig("signature.value byte", func(ns *coreblock.Signature) { ns.Value = flipped(sig.Value, i) })
	}
	addSig("signature.value truncated", func(ns *coreblock.Signature) { ns.Value = sig.Value[:len(sig.Value)-1] })
	addSig("signature.value empty", func(ns *coreblock.Signature) { ns.Value = nil })
	addSig("signature.header.type swapped", func(ns *coreblock.Signature) {
		if ns.Header.Type == coreblock.SignatureTypeEd25519 {
			ns.Header.Type = coreblock.SignatureTypeECDSA256K
		} else {
			ns.Header.Type = coreblock.SignatureTypeEd25519
		}
	})
	addSig("signature.header.type unknown", func(ns *coreblock.Signature) { ns.Header.Type = "none" })
	for _, k := range otherKeys {
		k := k
		addSig("signature.header.identity replaced by another valid key", func(ns *coreblock.Signature) { ns.Header.Identity = []byte(k.String()) })
	}
	for _, i := range []int{0, len(sig.Header.Identity) / 2, len(sig.Header.Identity) - 1} {
		i := i
		addSig("signature.header.identity byte", func(ns *coreblock.Signature) { ns.Header.Identity = flipped(sig.Header.Identity, i) })
	}
	return out
}

func c12Dump(n *c12Node) string {
	ctx := context.Background()
	d1, _ := world.Exec(ctx, n.db, `query { U(showDeleted: true) { _docID _deleted name n c } }`)
	d2, _ := world.Exec(ctx, n.db, `query { commits { cid docID fieldName height } }`)
	var heads []string
	n.st.Snapshot().Each(func(k string, v []byte) {
		if strings.HasPrefix(k, "/db/heads/") || strings.HasPrefix(k, "/db/data/") {
			heads = append(heads, fmt.Sprintf("%s=%x", k, v))
		}
	})
	sort.Strings(heads)
	return world.Canon(d1) + "\n" + world.Canon(d2) + "\n" + strings.Join(heads, "\n")
}

func putRaw(st *vkv.Store, key string, val []byte) {
	t := st.NewTxn(false)
	if err := t.Set(context.Background(), []byte(key), val); err != nil {
		panic(err)
	}
	if err := t.Commit(); err != nil {
		panic(err)
	}
}

func linkSystemOf(st *vkv.Store) linking.LinkSystem {
	ls := cidlink.DefaultLinkSystem()
	ls.SetReadStorage(&bsadapter.Adapter{Wrapped: datastore.BlockstoreFrom(st)})
	ls.TrustedStorage = true
	return ls
}

func runC12(args []string) int {
	r := rep.New("C12", "exploration")
	if len(args) >= 2 && args[0] == "replay" {
		fmt.Println("replay: the file names key type, history, block and tampering; re-run `bin/check C12 quick`:", args[1])
		b, _ := os.ReadFile(args[1])
		var x any
		_ = json.Unmarshal(b, &x)
		return 0
	}
	ctx := context.Background()
	st := &c12Stats{}
	world.SeedRand("c12-keys")
	var idents []identity.FullIdentity
	for _, kt := range []crypto.KeyType{crypto.KeyTypeSecp256k1, crypto.KeyTypeEd25519, crypto.KeyTypeSecp256k1, crypto.KeyTypeEd25519} {
		id, err := identity.Generate(kt)
		if err != nil {
			rep.HarnessError("identity: %v", err)
		}
		idents = append(idents, id)
	}
	world.UnseedRand()
	type job struct {
		author int
		h      c12Hist
	}
	var jobs []job
	for a := 0; a < 2; a++ {
		for _, h := range c12Histories() {
			jobs = append(jobs, job{a, h})
		}
	}
	var wg sync.WaitGroup
	var herr atomic.Value
	for _, j := range jobs {
		wg.Add(1)
		go func(j job) {
			defer wg.Done()
			if err := c12Job(ctx, r, st, idents, j.author, j.h); err != nil {
				herr.Store(fmt.Errorf("%s/%s: %w", idents[j.author].PrivateKey().Type(), j.h.Name, err))
			}
		}(j)
	}
	wg.Wait()
	if e := herr.Load(); e != nil {
		rep.HarnessError("C12: %v", e)
	}
	nk := 0
	st.kinds.Range(func(k, v any) bool { nk++; return true })
	r.Coverage["evaluations"] = st.tamperings
	r.Coverage["distinct_nontrivial"] = nk
	r.Coverage["rule"] = "2 key types x 4 histories (create; update incl. counter; delete; null) x every signed block x every single-field tampering of the block (each byte of delta data and docID, field name, priority +-1, schema version id, status, every head/link removed/duplicated/replaced by every other block of the store/renamed/added, encryption link added) and of its signature block (each byte of the value, truncated, empty, header type swapped/unknown, identity replaced by every other valid key / byte flipped); distinct = distinct (block kind, tampering kind) pairs"
	r.Coverage["signed_blocks"] = st.signedBlocks
	r.Coverage["unsigned_field_blocks_of_updates"] = st.unsignedBlocks
	r.Coverage["untampered_verified_with_author_key"] = st.verifyOK
	r.Coverage["untampered_rejected_with_other_keys"] = st.verifyOtherKey
	r.Coverage["tampered_verifications_under_every_key"] = st.tamperVerify
	r.Coverage["tampered_blocks_fed_to_receive_path"] = st.received
	r.Coverage["untampered_control_deliveries_accepted"] = st.controls
	r.Coverage["forged_ancestor_deliveries"] = st.ancestors
	r.Coverage["exhaustive"] = true
	r.Assumptions = []string{
		"cryptographic strength of ECDSA/EdDSA is trusted; multi-field tampering is outside",
		"receive path = real syncDAG (net) over a block service reading the receiver's store and an exchange serving the sender's store, then the real merge, called synchronously",
		"a block whose signature link is removed is unsigned, not forged: the statement does not cover it; it is counted only",
	}
	return r.Finish()
}


func c12Job(ctx context.Context, r *rep.Run, st *c12Stats, idents []identity.FullIdentity, author int, h c12Hist) error {
	a, err := newC12Node(true)
	if err != nil {
		return err
	}
	defer a.db.Close()
	rc, err := newC12Node(true)
	if err != nil {
		return err
	}
	defer rc.db.Close()
	me := idents[author]
	actx := identity.WithContext(ctx, immutable.Some[identity.Identity](me))
	world.SeedRand("c12", author, h.Name)
	defer world.UnseedRand()
	docID := ""
	for _, op := range h.Ops {
		q := op
		if strings.Contains(q, "%s") {
			q = fmt.Sprintf(op, docID)
		}
		data, errs := world.Exec(actx, a.db, q)
		if len(errs) > 0 {
			return fmt.Errorf("%s: %v", q, errs)
		}
		if docID == "" {
			if docID, err = docIDOf(data, "create_U"); err != nil {
				return err
			}
		}
	}
	keyType := fmt.Sprint(me.PrivateKey().Type())
	sn := a.st.Snapshot()
	// all blocks of the sender
	type blk struct {
		c   cid.Cid
		b   *coreblock.Block
		raw []byte
	}
	var blocks []blk
	var allCids []cid.Cid
	d, _ := world.Exec(ctx, a.db, `query { commits(order: {height: ASC}) { cid height fieldName } }`)
	for _, row := range world.Rows(d, "commits") {
		c, err := cid.Decode(fmt.Sprint(row["cid"]))
		if err != nil {
			return err
		}
		raw, ok := sn.Get(crdtx.BlockKey(c))
		if !ok {
			return fmt.Errorf("block %s not in store", c)
		}
		b, err := coreblock.GetFromBytes(raw)
		if err != nil {
			return err
		}
		blocks = append(blocks, blk{c, b, raw})
		allCids = append(allCids, c)
	}
	ls := linkSystemOf(a.st)
	var otherKeys []crypto.PublicKey
	for i, id := range idents {
		if i != author {
			otherKeys = append(otherKeys, id.PublicKey())
		}
	}
	// the receiver first merges the honest history up to (not including) the last composite
	composites := []blk{}
	for _, b := range blocks {
		if b.b.Delta.IsComposite() {
			composites = append(composites, b)
		}
	}
	deliver := func(rcv *c12Node, from vkv.Snap, c cid.Cid) error {
		raw, ok := from.Get(crdtx.BlockKey(c))
		if !ok {
			return fmt.Errorf("harness: sender lacks %s", c)
		}
		b, err := coreblock.GetFromBytes(raw)
		if err != nil {
			return err
		}
		bs := blockservice.New(datastore.BlockstoreFrom(rcv.st), crdtx.Exchange(from))
		if err := defranet.VerifSyncDAG(ctx, bs, b); err != nil {
			return fmt.Errorf("syncDAG: %w", err)
		}
		return rcv.db.VerifMerge(ctx, event.Merge{DocID: docID, Cid: c, CollectionID: rcv.colID})
	}
	for _, b := range blocks {
		if b.b.Signature == nil {
			atomic.AddInt64(&st.unsignedBlocks, 1)
			continue
		}
		atomic.AddInt64(&st.signedBlocks, 1)
		kind := "field"
		if b.b.Delta.IsComposite() {
			kind = "composite"
		}
		// (a) the untampered block
		if err := a.db.VerifySignature(ctx, b.c.String(), me.PublicKey()); err != nil {
			r.Violation(rep.Violation{Fingerprint: "C12:own-signature-does-not-verify:" + kind,
				Summary: fmt.Sprintf("%s %s block %s: VerifySignature with the author's key: %v", keyType, h.Name, b.c, err),
				Replay:  map[string]any{"key": keyType, "history": h.Name, "block": b.c.String()}})
		}
		atomic.AddInt64(&st.verifyOK, 1)
		for _, k := range otherKeys {
			atomic.AddInt64(&st.verifyOtherKey, 1)
			if err := a.db.VerifySignature(ctx, b.c.String(), k); err == nil {
				r.Violation(rep.Violation{Fingerprint: "C12:verifies-under-foreign-key:" + kind,
					Summary: fmt.Sprintf("%s %s block %s verifies under key %s", keyType, h.Name, b.c, k.String()),
					Replay:  map[string]any{"key": keyType, "history": h.Name, "block": b.c.String()}})
			}
		}
		sigRaw, ok := sn.Get(crdtx.BlockKey(b.b.Signature.Cid))
		if !ok {
			return fmt.Errorf("signature block of %s missing", b.c)
		}
		sig, err := coreblock.GetSignatureBlockFromBytes(sigRaw)
		if err != nil {
			return err
		}
		var others []cid.Cid
		for _, c := range allCids {
			if c != b.c {
				others = append(others, c)
			}
		}
		// prepare the receiver: it has merged every composite below this block's height
		rc.st.Restore(rc.base)
		prio := b.b.Delta.GetPriority()
		for _, cb := range composites {
			if cb.b.Delta.GetPriority() < prio {
				if err := deliver(rc, sn, cb.c); err != nil {
					return fmt.Errorf("honest delivery of %s: %w", cb.c, err)
				}
			}
		}
		prepared := rc.st.Snapshot()
		before := c12Dump(rc)
		if kind == "composite" {
			// control: the untampered commit is accepted and changes the receiver (the oracle is not vacuous)
			if err := deliver(rc, sn, b.c); err != nil {
				return fmt.Errorf("control delivery of the untampered %s failed: %w", b.c, err)
			}
			if c12Dump(rc) == before {
				return fmt.Errorf("control delivery of the untampered %s changed nothing", b.c)
			}
			atomic.AddInt64(&st.controls, 1)
			rc.st.Restore(prepared)
		}
		for _, t := range c12Tamperings(b.b, sig, others, otherKeys) {
			atomic.AddInt64(&st.tamperings, 1)
			st.kinds.LoadOrStore(kind+"/"+t.Kind, true)
			// file the tampered block (and signature block) in the sender's store
			a.st.Restore(sn)
			if t.Sig != nil {
				sraw, err := t.Sig.Marshal()
				if err != nil {
					return err
				}
				scid, err := crdtx.CidOfBlock(sraw)
				if err != nil {
					return err
				}
				sc := cidlink.Link{Cid: scid}
				putRaw(a.st, crdtx.BlockKey(sc.Cid), sraw)
				t.Block.Signature = &sc
			}
			traw, err := t.Block.Marshal()
			if err != nil {
				// a change that cannot even be encoded is not a forged commit
				continue
			}
			tc, err := crdtx.CidOfBlock(traw)
			if err != nil {
				return err
			}
			if tc == b.c && t.Sig == nil {
				continue // the change did not change the block
			}
			putRaw(a.st, crdtx.BlockKey(tc), traw)
			tsn := a.st.Snapshot()
			info := map[string]any{"key": keyType, "history": h.Name, "block": b.c.String(), "block_kind": kind, "tampering": t.Kind}
			// oracle 1: verification fails under every key
			for ki, k := range append([]crypto.PublicKey{me.PublicKey()}, otherKeys...) {
				if ki == 0 && strings.HasPrefix(t.Kind, "signature.header.type") {
					// content, author key and signature value are untouched: verifying with the
					// author's key rightly succeeds; only the label read on the receive path changed
					continue
				}
				atomic.AddInt64(&st.tamperVerify, 1)
				if err := a.db.VerifySignature(ctx, tc.String(), k); err == nil {
					r.Violation(rep.Violation{Fingerprint: "C12:tampered-block-verifies:" + kind + ":" + t.Kind,
						Summary: fmt.Sprintf("%s %s %s block %s, %s: VerifySignature succeeds under key %s", keyType, h.Name, kind, b.c, t.Kind, k.String()),
						Replay:  info})
				}
			}
			if ran, err := coreblock.VerifyBlockSignature(t.Block, &ls); err == nil && ran {
				r.Violation(rep.Violation{Fingerprint: "C12:tampered-block-verifies-on-receipt:" + kind + ":" + t.Kind,
					Summary: fmt.Sprintf("%s %s %s block %s, %s: VerifyBlockSignature (receive path) succeeds", keyType, h.Name, kind, b.c, t.Kind),
					Replay:  info})
			}
			// oracle 2: the receive path rejects it and nothing changes
			if kind != "composite" {
				continue // only composites are pushed; field blocks arrive as links (covered by "link replaced")
			}
			// a forged ancestor below a head that the attacker signed with its own (valid) key: the head
			// verifies, the linked forged block must not; delivered twice
			if t.Sig == nil && (t.Kind == "delta.priority+1" || t.Kind == "delta.status (delete flag)" || strings.HasPrefix(t.Kind, "head re")) {
				attacker := idents[(author+1)%len(idents)]
				head := &coreblock.Block{Delta: crdt.CRDT{DocCompositeDelta: &crdt.DocCompositeDelta{
					DocID: b.b.Delta.DocCompositeDelta.DocID, Priority: t.Block.Delta.GetPriority() + 1,
					SchemaVersionID: b.b.Delta.DocCompositeDelta.SchemaVersionID}},
					Heads: []cidlink.Link{{Cid: tc}}}
				toSign, err := head.Marshal()
				if err != nil {
					return err
				}
				sigVal, err := attacker.PrivateKey().Sign(toSign)
				if err != nil {
					return err
				}
				sigType := coreblock.SignatureTypeECDSA256K
				if attacker.PrivateKey().Type() == crypto.KeyTypeEd25519 {
					sigType = coreblock.SignatureTypeEd25519
				}
				asig := &coreblock.Signature{Header: coreblock.SignatureHeader{Type: sigType, Identity: []byte(attacker.PublicKey().String())}, Value: sigVal}
				araw, err := asig.Marshal()
				if err != nil {
					return err
				}
				acid, err := crdtx.CidOfBlock(araw)
				if err != nil {
					return err
				}
				putRaw(a.st, crdtx.BlockKey(acid), araw)
				head.Signature = &cidlink.Link{Cid: acid}
				hraw, err := head.Marshal()
				if err != nil {
					return err
				}
				hcid, err := crdtx.CidOfBlock(hraw)
				if err != nil {
					return err
				}
				putRaw(a.st, crdtx.BlockKey(hcid), hraw)
				hsn := a.st.Snapshot()
				rc.st.Restore(prepared)
				for round := 1; round <= 2; round++ {
					atomic.AddInt64(&st.received, 1)
					atomic.AddInt64(&st.ancestors, 1)
					herr := deliver(rc, hsn, hcid)
					if herr == nil || c12Dump(rc) != before {
						r.Violation(rep.Violation{Fingerprint: fmt.Sprintf("C12:forged-ancestor-below-a-validly-signed-head-accepted:delivery-%d:%s", round, t.Kind),
							Summary: fmt.Sprintf("%s %s: forged copy of %s (%s) below a head signed by another identity: delivery %d returned %v; receiver state changed: %v", keyType, h.Name, b.c, t.Kind, round, herr, c12Dump(rc) != before),
							Replay:  info})
						break
					}
				}
			}
			rc.st.Restore(prepared)
			atomic.AddInt64(&st.received, 1)
			done := make(chan error, 1)
			go func() { done <- deliver(rc, tsn, tc) }()
			var derr error
			select {
			case derr = <-done:
			case <-time.After(world.HangTimeout):
				r.Violation(rep.Violation{Fingerprint: "C12:forged-commit-hangs-the-receiver:" + t.Kind,
					Summary: fmt.Sprintf("%s %s composite %s, %s: the receive path did not return within %v", keyType, h.Name, b.c, t.Kind, world.HangTimeout), Replay: info})
				return nil // this receiver is lost to the hanging merge
			}
			after := c12Dump(rc)
			if derr != nil && after == before {
				// second delivery: the rejected block now sits in the receiver's blockstore as an orphan
				atomic.AddInt64(&st.received, 1)
				derr = deliver(rc, tsn, tc)
				after = c12Dump(rc)
				if derr == nil || after != before {
					r.Violation(rep.Violation{Fingerprint: "C12:forged-commit-accepted-on-second-delivery:" + t.Kind,
						Summary: fmt.Sprintf("%s %s composite %s, %s: rejected the first time, the second delivery returned %v; receiver state changed: %v", keyType, h.Name, b.c, t.Kind, derr, after != before),
						Replay:  info})
				}
				continue
			}
			if derr == nil || after != before {
				r.Violation(rep.Violation{Fingerprint: "C12:forged-commit-accepted:" + t.Kind,
					Summary: fmt.Sprintf("%s %s composite %s, %s: receive path returned %v; receiver state changed: %v\n--- before\n%s\n--- after\n%s", keyType, h.Name, b.c, t.Kind, derr, after != before, before, after),
					Replay:  info})
			}
		}
		a.st.Restore(sn)
		r.Sample(map[string]any{"key": keyType, "history": h.Name, "block": b.c.String(), "kind": kind, "tamperings": len(c12Tamperings(b.b, sig, others, otherKeys))})
	}
	return nil
}
