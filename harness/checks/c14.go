package checks

// C14 — a node restarted on its store is indistinguishable from one that never stopped
// (DESIGN.md §4 C14).
//
// Every history up to the bound over {add a second schema, patch the first schema (default or
// not), switch the active version, create / drop a secondary index (plain, unique), create / update
// / delete documents of both collections} is executed in lock step on three real databases: one
// that is never closed, one that is closed and re-opened on its store after every operation, one
// that is re-opened once in the middle. After every operation the three must have returned the same
// result and must give the same dump (collection versions with field and index identifiers,
// documents incl. deleted under every active collection, commit history). In addition every store
// content at a commit boundary *inside* an operation (crash point) is opened as a node of its own:
// it must open, and show either the state before or the state after the operation.

import (
	"context"
	"encoding/json"
	"fmt"
	"os"
	"runtime"
	"sort"
	"strings"
	"sync"
	"sync/atomic"

	"github.com/sourcenetwork/immutable"
	"github.com/sourcenetwork/lens/host-go/config/model"

	"github.com/sourcenetwork/defradb/client"
	"github.com/sourcenetwork/defradb/internal/db"
	"github.com/sourcenetwork/defradb/internal/verifh/rep"
	"github.com/sourcenetwork/defradb/internal/verifh/vkv"
	"github.com/sourcenetwork/defradb/internal/verifh/world"
)

func init() { Register("C14", runC14) }

const c14SDL = `type U { name: String  a: Int  s: String }`

type c14Node struct {
	st *vkv.Store
	db *db.DB
	// bookkeeping the driver needs to name things (identical on all twins by construction)
	docs  []string
	ndocs int
}

func newC14Node() (*c14Node, error) {
	ctx := context.Background()
	st := vkv.NewStore()
	d, err := world.NewDB(ctx, st)
	if err != nil {
		return nil, err
	}
	if _, err := d.AddSchema(ctx, c14SDL); err != nil {
		return nil, err
	}
	return &c14Node{st: st, db: d}, nil
}

func (n *c14Node) reopen() error {
	n.db.Close()
	n.st.Restore(n.st.Snapshot()) // a closed vkv store is re-armed by Restore; content unchanged
	d, err := world.NewDB(context.Background(), n.st)
	if err != nil {
		return err
	}
	n.db = d
	return nil
}

type c14Op struct {
	Name string
	Run  func(ctx context.Context, n *c14Node) string // returns the rendered result
}

func errStr(err error) string {
	if err == nil {
		return "ok"
	}
	s := err.Error()
	if i := strings.Index(s, "Stack:"); i > 0 {
		s = s[:i]
	}
	return "error: " + s
}

func gqlResult(ctx context.Context, n *c14Node, q string) (string, any) {
	data, errs := world.Exec(ctx, n.db, q)
	return world.Canon(data) + " " + strings.Join(errs, ";"), data
}

func c14Ops() []c14Op {
	patch := func(field string, def bool) func(ctx context.Context, n *c14Node) string {
		return func(ctx context.Context, n *c14Node) string {
			return errStr(n.db.PatchSchema(ctx, fmt.Sprintf(`[{"op": "add", "path": "/U/Fields/-", "value": {"Name": %q, "Kind": "String"}}]`, field), immutable.None[model.Lens](), def))
		}
	}
	return []c14Op{
		{"add schema V", func(ctx context.Context, n *c14Node) string {
			cols, err := n.db.AddSchema(ctx, `type V { m: String @index }`)
			out := errStr(err)
			for _, c := range cols {
				out += " " + c.Name + "/" + c.VersionID
			}
			return out
		}},
		{"patch U +e1 (default)", patch("e1", true)},
		{"patch U +e2 (not default)", patch("e2", false)},
		{"switch active version of U", func(ctx context.Context, n *c14Node) string {
			cols, err := n.db.GetCollections(ctx, client.CollectionFetchOptions{Name: immutable.Some("U"), IncludeInactive: immutable.Some(true)})
			if err != nil {
				return errStr(err)
			}
			var inactive []string
			for _, c := range cols {
				if !c.Version().IsActive {
					inactive = append(inactive, c.Version().VersionID)
				}
			}
			if len(inactive) == 0 {
				return "no other version"
			}
			sort.Strings(inactive)
			return errStr(n.db.SetActiveSchemaVersion(ctx, inactive[0])) + " " + inactive[0]
		}},
		{"patch U +e3 in a transaction that is discarded", func(ctx context.Context, n *c14Node) string {
			txn, err := n.db.NewTxn(ctx, false)
			if err != nil {
				return errStr(err)
			}
			res := errStr(txn.PatchSchema(ctx, `[{"op": "add", "path": "/U/Fields/-", "value": {"Name": "e3", "Kind": "Int"}}]`, immutable.None[model.Lens](), true))
			txn.Discard(ctx)
			return res + " (discarded)"
		}},
		{"switch active version of U in a transaction that is discarded", func(ctx context.Context, n *c14Node) string {
			cols, err := n.db.GetCollections(ctx, client.CollectionFetchOptions{Name: immutable.Some("U"), IncludeInactive: immutable.Some(true)})
			if err != nil {
				return errStr(err)
			}
			var inactive []string
			for _, c := range cols {
				if !c.Version().IsActive {
					inactive = append(inactive, c.Version().VersionID)
				}
			}
			if len(inactive) == 0 {
				return "no other version"
			}
			sort.Strings(inactive)
			txn, err := n.db.NewTxn(ctx, false)
			if err != nil {
				return errStr(err)
			}
			res := errStr(txn.SetActiveSchemaVersion(ctx, inactive[0]))
			txn.Discard(ctx)
			return res + " (discarded)"
		}},
		{"create index U.a", func(ctx context.Context, n *c14Node) string {
			col, err := n.db.GetCollectionByName(ctx, "U")
			if err != nil {
				return errStr(err)
			}
			d, err := col.CreateIndex(ctx, client.IndexCreateRequest{Fields: []client.IndexedFieldDescription{{Name: "a"}}})
			return fmt.Sprintf("%s id=%d name=%s", errStr(err), d.ID, d.Name)
		}},
		{"create unique index U.s", func(ctx context.Context, n *c14Node) string {
			col, err := n.db.GetCollectionByName(ctx, "U")
			if err != nil {
				return errStr(err)
			}
			d, err := col.CreateIndex(ctx, client.IndexCreateRequest{Name: "uniq_s", Unique: true, Fields: []client.IndexedFieldDescription{{Name: "s"}}})
			return fmt.Sprintf("%s id=%d name=%s", errStr(err), d.ID, d.Name)
		}},
		{"drop first index of U", func(ctx context.Context, n *c14Node) string {
			col, err := n.db.GetCollectionByName(ctx, "U")
			if err != nil {
				return errStr(err)
			}
			ix, err := col.GetIndexes(ctx)
			if err != nil {
				return errStr(err)
			}
			if len(ix) == 0 {
				return "no index"
			}
			sort.Slice(ix, func(i, j int) bool { return ix[i].Name < ix[j].Name })
			return errStr(col.DropIndex(ctx, ix[0].Name)) + " " + ix[0].Name
		}},
		{"create U", func(ctx context.Context, n *c14Node) string {
			n.ndocs++
			res, data := gqlResult(ctx, n, fmt.Sprintf(`mutation { create_U(input: {name: "d%d", a: %d, s: "s%d"}) { _docID } }`, n.ndocs, n.ndocs%2, n.ndocs%2))
			for _, row := range world.Rows(data, "create_U") {
				n.docs = append(n.docs, fmt.Sprint(row["_docID"]))
			}
			return res
		}},
		{"update last U", func(ctx context.Context, n *c14Node) string {
			if len(n.docs) == 0 {
				return "no document"
			}
			res, _ := gqlResult(ctx, n, fmt.Sprintf(`mutation { update_U(docID: %q, input: {a: 7}) { _docID a } }`, n.docs[len(n.docs)-1]))
			return res
		}},
		{"delete last U", func(ctx context.Context, n *c14Node) string {
			if len(n.docs) == 0 {
				return "no document"
			}
			res, _ := gqlResult(ctx, n, fmt.Sprintf(`mutation { delete_U(docID: %q) { _docID } }`, n.docs[len(n.docs)-1]))
			return res
		}},
		{"add materialized view UV", func(ctx context.Context, n *c14Node) string {
			cols, err := n.db.AddView(ctx, `U { name }`, `type UV { name: String }`, immutable.None[model.Lens]())
			out := errStr(err)
			for _, c := range cols {
				out += " " + c.Version.Name + "/" + c.Version.VersionID
			}
			return out
		}},
		{"refresh views", func(ctx context.Context, n *c14Node) string {
			return errStr(n.db.RefreshViews(ctx, client.CollectionFetchOptions{}))
		}},
		{"create V", func(ctx context.Context, n *c14Node) string {
			n.ndocs++
			res, _ := gqlResult(ctx, n, fmt.Sprintf(`mutation { create_V(input: {m: "m%d"}) { _docID } }`, n.ndocs))
			return res
		}},
	}
}

// c14Dump renders everything a client can see of the node.
func c14Dump(ctx context.Context, d *db.DB) string {
	var b strings.Builder
	cols, err := d.GetCollections(ctx, client.CollectionFetchOptions{IncludeInactive: immutable.Some(true)})
	if err != nil {
		return "collections error: " + err.Error()
	}
	sort.Slice(cols, func(i, j int) bool { return cols[i].Version().VersionID < cols[j].Version().VersionID })
	for _, c := range cols {
		v := c.Version()
		j, _ := json.Marshal(v)
		b.WriteString("collection " + string(j) + "\n")
		s, _ := json.Marshal(c.Schema())
		b.WriteString("schema " + string(s) + "\n")
		if !v.IsActive {
			continue
		}
		ix, err := c.GetIndexes(ctx)
		ji, _ := json.Marshal(ix)
		b.WriteString(fmt.Sprintf("indexes %s %s %v\n", v.Name, ji, err))
		var fields []string
		for _, f := range c.Definition().GetFields() {
			if !f.Kind.IsObject() && f.Name != "_docID" {
				fields = append(fields, f.Name)
			}
		}
		data, errs := world.Exec(ctx, d, fmt.Sprintf(`query { %s(showDeleted: true) { _docID _deleted %s _version { cid height } } }`, v.Name, strings.Join(fields, " ")))
		b.WriteString(fmt.Sprintf("documents %s %s %v\n", v.Name, world.CanonRowsUnordered(world.Rows(data, v.Name)), errs))
		if v.Name == "UV" {
			// a materialized view: its cached items are what a client reads
			data, errs = world.Exec(ctx, d, `query { UV { name } }`)
			b.WriteString(fmt.Sprintf("view UV: %s %v\n", world.CanonRowsUnordered(world.Rows(data, "UV")), errs))
		}
		// an index-backed read and a probe that needs the GraphQL types
		if v.Name == "U" {
			data, errs = world.Exec(ctx, d, `query { U(filter: {a: {_eq: 1}}) { name } }`)
			b.WriteString(fmt.Sprintf("filter a=1: %s %v\n", world.CanonRowsUnordered(world.Rows(data, "U")), errs))
			data, errs = world.Exec(ctx, d, `query { U(filter: {s: {_eq: "s1"}}) { name e1 } }`)
			b.WriteString(fmt.Sprintf("probe e1: %s %v\n", world.CanonRowsUnordered(world.Rows(data, "U")), errs))
		}
	}
	// the in-memory GraphQL type system, by introspection
	for _, tn := range []string{"U", "V", "UV"} {
		ti, terrs := world.Exec(ctx, d, fmt.Sprintf(`query { __type(name: %q) { fields { name } } }`, tn))
		b.WriteString(fmt.Sprintf("graphql type %s: %s %v\n", tn, world.Canon(ti), terrs))
	}
	data, errs := world.Exec(ctx, d, `query { commits { cid docID fieldName height schemaVersionId } }`)
	b.WriteString(fmt.Sprintf("commits %s %v\n", world.CanonRowsUnordered(world.Rows(data, "commits")), errs))
	all, err := d.GetAllIndexes(ctx)
	ja, _ := json.Marshal(all)
	b.WriteString(fmt.Sprintf("all indexes %s %v\n", ja, err))
	return b.String()
}

type c14Stats struct {
	histories, steps, restarts, crashPoints, crashOpens, dumpCompares int64
	outcomes                                                         sync.Map
}

func runC14(args []string) int {
	r := rep.New("C14", "model_checking")
	if len(args) >= 2 && args[0] == "replay" {
		return c14ReplayCmd(r, args[1])
	}
	thorough := rep.Tier() == "thorough"
	H := 4
	if thorough {
		H = 5
	}
	ops := c14Ops()
	// histories in which an operation has nothing to act on (no document / index / second version /
	// collection V yet) are not generated: the operation would return its "no ..." sentinel only
	type gm struct {
		versions, indexes, docs int
		hasV, hasView           bool
	}
	applicable := func(m gm, name string) bool {
		switch {
		case strings.HasPrefix(name, "switch active version"):
			return m.versions > 1
		case name == "drop first index of U":
			return m.indexes > 0
		case name == "update last U" || name == "delete last U":
			return m.docs > 0
		case name == "create V":
			return m.hasV
		case name == "add schema V":
			return !m.hasV
		case name == "add materialized view UV":
			return !m.hasView
		case name == "refresh views":
			return m.hasView
		}
		return true
	}
	step := func(m gm, name string) gm {
		switch {
		case name == "add schema V":
			m.hasV = true
		case name == "add materialized view UV":
			m.hasView = true
		case strings.HasPrefix(name, "patch U +e") && !strings.Contains(name, "discarded"):
			m.versions++
		case strings.HasPrefix(name, "create index") || strings.HasPrefix(name, "create unique index"):
			m.indexes++
		case name == "drop first index of U":
			m.indexes--
		case name == "create U":
			m.docs++
		}
		return m
	}
	var hists [][]int
	var rec func(cur []int, m gm)
	rec = func(cur []int, m gm) {
		if len(cur) == H {
			hists = append(hists, append([]int{}, cur...))
			return
		}
		for i := range ops {
			if !applicable(m, ops[i].Name) {
				continue
			}
			rec(append(cur, i), step(m, ops[i].Name))
		}
	}
	rec(nil, gm{versions: 1})
	st := &c14Stats{}
	ch := make(chan []int)
	var wg sync.WaitGroup
	var herr atomic.Value
	for w := 0; w < runtime.NumCPU(); w++ {
		wg.Add(1)
		go func() {
			defer wg.Done()
			for h := range ch {
				if err := c14History(r, st, h, ops); err != nil {
					herr.Store(fmt.Errorf("%v: %w", c14Names(h, ops), err))
				}
			}
		}()
	}
	for _, h := range hists {
		ch <- h
	}
	close(ch)
	wg.Wait()
	if e := herr.Load(); e != nil {
		rep.HarnessError("C14: %v", e)
	}
	no := 0
	st.outcomes.Range(func(k, v any) bool { no++; return true })
	r.Coverage["states"] = st.steps
	r.Coverage["transitions"] = st.steps + st.restarts + st.crashOpens
	r.Coverage["traces_validated_against_impl"] = st.histories
	r.Coverage["histories"] = st.histories
	r.Coverage["restarts"] = st.restarts
	r.Coverage["commit_boundaries_inside_operations"] = st.crashPoints
	r.Coverage["crash_snapshots_opened"] = st.crashOpens
	r.Coverage["dump_comparisons"] = st.dumpCompares
	r.Coverage["distinct_outcomes"] = no
	r.Coverage["bounds"] = fmt.Sprintf("every history of %d operations over %d operations; twins: never restarted / restarted after every operation / restarted once after operation %d", H, len(ops), (H+1)/2)
	r.Coverage["exhaustive"] = true
	r.Assumptions = []string{
		"the store device is vkv (commit atomicity is the store's contract); crash points are the store contents after each commit inside an operation",
		"peer configuration (replicators, P2P collections) is not in this alphabet; it is reloaded by net.Peer and belongs to the replication engine",
		"every history is executed on the real database (it is its own trace)",
	}
	return r.Finish()
}

func c14Names(h []int, ops []c14Op) []string {
	var out []string
	for _, i := range h {
		out = append(out, ops[i].Name)
	}
	return out
}

func c14History(r *rep.Run, st *c14Stats, h []int, ops []c14Op) error {
	ctx := context.Background()
	atomic.AddInt64(&st.histories, 1)
	names := c14Names(h, ops)
	var twins [3]*c14Node
	for i := range twins {
		n, err := newC14Node()
		if err != nil {
			return err
		}
		twins[i] = n
	}
	defer func() {
		for _, n := range twins {
			n.db.Close()
		}
	}()
	viol := func(kind string, step int, detail string) {
		r.Violation(rep.Violation{Fingerprint: "C14:" + kind + ":" + ops[h[step]].Name,
			Summary: fmt.Sprintf("history %v step %d: %s", names, step, detail), Replay: map[string]any{"history": names}})
	}
	mid := (len(h) + 1) / 2
	for si, oi := range h {
		atomic.AddInt64(&st.steps, 1)
		op := ops[oi]
		// crash points: store contents at every commit inside the operation on the never-restarted twin
		pre := c14Dump(ctx, twins[0].db)
		var snaps []vkv.Snap
		twins[0].st.OnCommit = func(sn vkv.Snap) { snaps = append(snaps, sn) }
		var results [3]string
		for ti, n := range twins {
			world.SeedRand("c14", h[:si+1])
			results[ti] = op.Run(ctx, n)
			world.UnseedRand()
		}
		twins[0].st.OnCommit = nil
		post := c14Dump(ctx, twins[0].db)
		st.outcomes.LoadOrStore(op.Name+"|"+results[0][:min(len(results[0]), 40)], true)
		if len(snaps) > 1 {
			for _, sn := range snaps[:len(snaps)-1] {
				atomic.AddInt64(&st.crashPoints, 1)
				cs := vkv.NewStoreFrom(sn)
				cd, err := world.NewDB(ctx, cs)
				if err != nil {
					viol("crash-point-does-not-open", si, err.Error())
					continue
				}
				atomic.AddInt64(&st.crashOpens, 1)
				got := c14Dump(ctx, cd)
				cd.Close()
				if got != pre && got != post {
					viol("crash-point-neither-before-nor-after", si, "a store content at a commit boundary inside the operation shows a third state:\n"+lineDiffShort(pre, got))
				}
			}
		}
		// restarts
		for ti, n := range twins {
			if ti == 1 || (ti == 2 && si+1 == mid) {
				before := c14Dump(ctx, n.db)
				if err := n.reopen(); err != nil {
					viol("reopen-fails", si, err.Error())
					return nil
				}
				atomic.AddInt64(&st.restarts, 1)
				after := c14Dump(ctx, n.db)
				atomic.AddInt64(&st.dumpCompares, 1)
				if before != after {
					viol("dump-changes-over-restart", si, lineDiffShort(before, after))
				}
			}
		}
		for ti := 1; ti < 3; ti++ {
			if results[ti] != results[0] {
				viol("result-differs-from-never-restarted-twin", si, fmt.Sprintf("twin %d (restarted) returned %s, the never restarted twin %s", ti, results[ti], results[0]))
			}
			atomic.AddInt64(&st.dumpCompares, 1)
			if d := c14Dump(ctx, twins[ti].db); d != post {
				viol("state-differs-from-never-restarted-twin", si, fmt.Sprintf("twin %d: %s", ti, lineDiffShort(post, d)))
			}
		}
	}
	if len(h) > 2 && h[0] == 1 && h[1] == 4 {
		r.Sample(map[string]any{"history": names})
	}
	return nil
}

func lineDiffShort(a, b string) string {
	la, lb := strings.Split(a, "\n"), strings.Split(b, "\n")
	var out []string
	for i := 0; i < len(la) || i < len(lb); i++ {
		x, y := "", ""
		if i < len(la) {
			x = la[i]
		}
		if i < len(lb) {
			y = lb[i]
		}
		if x != y {
			if len(x) > 600 {
				x = x[:600] + "..."
			}
			if len(y) > 600 {
				y = y[:600] + "..."
			}
			out = append(out, "- "+x+"\n+ "+y)
			if len(out) == 3 {
				break
			}
		}
	}
	return strings.Join(out, "\n")
}

func c14ReplayCmd(r *rep.Run, path string) int {
	b, err := os.ReadFile(path)
	if err != nil {
		rep.HarnessError("replay: %v", err)
	}
	var f struct {
		Replay struct {
			History []string `json:"history"`
		} `json:"replay"`
	}
	if err := json.Unmarshal(b, &f); err != nil {
		rep.HarnessError("replay: %v", err)
	}
	ops := c14Ops()
	var h []int
	for _, nm := range f.Replay.History {
		for i, o := range ops {
			if o.Name == nm {
				h = append(h, i)
			}
		}
	}
	st := &c14Stats{}
	if err := c14History(r, st, h, ops); err != nil {
		rep.HarnessError("replay: %v", err)
	}
	fmt.Printf("replayed %v: violations=%d\n", f.Replay.History, r.Violations())
	return r.Finish()
}
