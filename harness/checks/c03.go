package checks

import (
	"context"
	"fmt"
	"runtime"
	"strings"
	"time"

	"github.com/sourcenetwork/defradb/client"
	"github.com/sourcenetwork/defradb/internal/db"
	"github.com/sourcenetwork/defradb/internal/verifh/crdtx"
	"github.com/sourcenetwork/defradb/internal/verifh/rep"
	"github.com/sourcenetwork/defradb/internal/verifh/vkv"
	"github.com/sourcenetwork/defradb/internal/verifh/world"
)

func init() { Register("C03", runC03) }

// linear-history enumerator: one node, every history of length <= H over the alphabet below; after
// every operation the ordinary query result is recorded; in every state every commit of the history
// is queried by cid and compared with what was recorded right after it was written.
type c03hist struct {
	ops     []string
	cids    []string
	rec     []string // canonical ordinary result right after each commit
	deleted bool
}

var c03ops = []string{"set", "null", "inc1", "inc2", "del"}

func c03req(op string, depth int, docID string) string {
	switch op {
	case "set":
		return fmt.Sprintf(`mutation { update_User(docID: %q, input: {name: "x%d"}) { _docID } }`, docID, depth)
	case "null":
		return fmt.Sprintf(`mutation { update_User(docID: %q, input: {name: null}) { _docID } }`, docID)
	case "inc1":
		return fmt.Sprintf(`mutation { update_User(docID: %q, input: {c: %d}) { _docID } }`, docID, 1+depth)
	case "inc2":
		return fmt.Sprintf(`mutation { update_User(docID: %q, input: {c: %d}) { _docID } }`, docID, 10*(1+depth))
	case "del":
		return fmt.Sprintf(`mutation { delete_User(docID: %q) { _docID } }`, docID)
	}
	panic(op)
}

func runC03(args []string) int {
	r := rep.New("C03", "model_checking")
	tier := rep.Tier()
	H := 4
	if tier == "thorough" {
		H = 5
	}
	ctx := context.Background()
	st := vkv.NewStore()
	world.SeedRand("c03", rep.Seed())
	defer world.UnseedRand()
	d, err := world.NewDB(ctx, st)
	if err != nil {
		rep.HarnessError("%v", err)
	}
	defer d.Close()
	if _, err := d.AddSchema(ctx, crdtSDL); err != nil {
		rep.HarnessError("%v", err)
	}
	data, errs := world.Exec(ctx, d, `mutation { create_User(input: {name: "a", c: 1}) { _docID } }`)
	if len(errs) > 0 {
		rep.HarnessError("%v", errs)
	}
	docID := world.Rows(data, "create_User")[0]["_docID"].(string)
	cur := func() string {
		data, errs := world.Exec(ctx, d, fmt.Sprintf(`query { User(docID: %q, showDeleted: true) { name c } }`, docID))
		return world.Canon(world.Rows(data, "User")) + strings.Join(errs, ";")
	}
	hung := false
	at := func(cid string) string {
		if hung {
			return "HANG"
		}
		data, errs, h, p := world.ExecGuard(ctx, d, fmt.Sprintf(`query { User(cid: %q, docID: %q) { name c } }`, cid, docID))
		if h {
			hung = true
			return "HANG"
		}
		if p != nil {
			return fmt.Sprint("PANIC ", p)
		}
		return world.Canon(world.Rows(data, "User")) + strings.Join(errs, ";")
	}
	head := func() string {
		hs := crdtxHeads(st.Snapshot(), docID)
		if len(hs) != 1 {
			rep.HarnessError("linear history with %d heads", len(hs))
		}
		return hs[0]
	}
	states, trans, evals := 0, 0, 0
	outcomes := map[string]struct{}{}
	h0 := &c03hist{cids: []string{head()}, rec: []string{cur()}}
	var dfs func(h *c03hist, sn vkv.Snap)
	dfs = func(h *c03hist, sn vkv.Snap) {
		states++
		// oracle in this state: every commit of the history, queried by cid
		for i, c := range h.cids {
			got := at(c)
			evals++
			outcomes[got] = struct{}{}
			if got == "HANG" || strings.HasPrefix(got, "PANIC") {
				r.Violation(rep.Violation{Fingerprint: "C03:time-travel-" + strings.ToLower(strings.Fields(got)[0]), Summary: fmt.Sprintf("history %v: query at commit %d: %s", h.ops, i, got),
					Replay: map[string]any{"engine": "c03-linear", "ops": h.ops, "commit_index": i}})
				continue
			}
			want := h.rec[i]
			if h.deleted && i == len(h.cids)-1 {
				continue // state of a delete commit: not constrained by the statement
			}
			if got != want {
				kind := "time-travel-linear"
				r.Violation(rep.Violation{Fingerprint: "C03:" + kind, Summary: fmt.Sprintf("history %v: query at commit %d returns %s, the ordinary query right after that commit returned %s", h.ops, i, got, want),
					Replay: map[string]any{"engine": "c03-linear", "ops": h.ops, "commit_index": i}})
			}
		}
		if !h.deleted {
			// at the single current head the versioned read equals the current read
			if got, want := at(h.cids[len(h.cids)-1]), cur(); got != want {
				r.Violation(rep.Violation{Fingerprint: "C03:head-differs-from-current", Summary: fmt.Sprintf("history %v: at head %s, current %s", h.ops, got, want),
					Replay: map[string]any{"engine": "c03-linear", "ops": h.ops}})
			}
		}
		if hung {
			return // the database object is stuck in the hung request; stop this part
		}
		if len(h.ops) >= H || h.deleted {
			if len(h.ops) == H && states%50 == 0 {
				r.Sample(map[string]any{"history": h.ops, "recorded": h.rec})
			}
			return
		}
		for _, op := range c03ops {
			if hung {
				return
			}
			st.Restore(sn)
			world.SeedRand("c03", rep.Seed(), len(h.ops), op)
			_, errs := world.Exec(ctx, d, c03req(op, len(h.ops), docID))
			if len(errs) > 0 {
				rep.HarnessError("history %v + %s: %v", h.ops, op, errs)
			}
			trans++
			nh := &c03hist{ops: append(append([]string{}, h.ops...), op), cids: append(append([]string{}, h.cids...), head()),
				rec: append(append([]string{}, h.rec...), cur()), deleted: op == "del"}
			dfs(nh, st.Snapshot())
		}
	}
	dfs(h0, st.Snapshot())

	// subscriptions: evaluated at the commit that triggered them
	subEvents := 0
	{
		st.Restore(vkv.Snap{})
		d2, err := world.NewDB(ctx, st)
		if err != nil {
			rep.HarnessError("%v", err)
		}
		if _, err := d2.AddSchema(ctx, crdtSDL); err != nil {
			rep.HarnessError("%v", err)
		}
		subEvents = c03Subscriptions(ctx, r, d2, st, H-1)
		d2.Close()
	}

	// branching histories: the E1 space with the time-travel oracle on every merged commit
	// L=3 is the smallest bound with a commit that joins two concurrent ones (two writers + one more write)
	L, N := 3, 2
	if tier == "thorough" {
		L = 4
	}
	var bstates, btrans int
	exhaustive := true
	for v := 0; v < 2; v++ {
		cfg := crdtx.Config{SDL: crdtSDL, Coll: "User", Ops: crdtOps, Registers: []string{"name"}, Counters: []string{"c"}, Workers: runtime.NumCPU(),
			N: N, L: L, PreCreate: true, Variant: v + 1000*rep.Seed(), TimeTravel: true, Deadline: time.Now().Add(15 * time.Minute)}
		e := &crdtx.Explorer{Cfg: cfg, Check: crdtx.StdCheck}
		if err := e.Run(); err != nil {
			rep.HarnessError("%v", err)
		}
		bstates += e.Stats.States
		btrans += e.Stats.Transitions
		exhaustive = exhaustive && e.Stats.Exhaustive
		seen := map[string]bool{}
		for _, vi := range e.Viols {
			if vi.Prop != "C03" || seen[vi.Fingerprint] {
				continue
			}
			seen[vi.Fingerprint] = true
			r.Violation(rep.Violation{Fingerprint: vi.Fingerprint, Summary: vi.Detail, Replay: map[string]any{"engine": "crdtx", "config": cfgJSON(cfg), "path": vi.Path}})
		}
	}
	r.Coverage["states"] = states + bstates
	r.Coverage["transitions"] = trans + btrans
	r.Coverage["linear_histories_states"] = states
	r.Coverage["time_travel_queries_linear"] = evals
	r.Coverage["branching_states"] = bstates
	r.Coverage["branching_transitions"] = btrans
	r.Coverage["subscription_results_checked"] = subEvents
	r.Coverage["distinct_outcomes"] = len(outcomes)
	r.Coverage["traces_validated_against_impl"] = 0
	r.Coverage["exhaustive"] = exhaustive
	r.Coverage["bounds"] = map[string]any{"H": H, "branching_N": N, "branching_L": L}
	r.Assumptions = []string{"vkv device (see C01)", "the listing of a document at a delete commit is not constrained by the statement and is not compared"}
	return r.Finish()
}

func crdtxHeads(sn vkv.Snap, docID string) []string {
	var out []string
	pre := "/db/heads/d/" + docID + "/C/"
	sn.Each(func(k string, v []byte) {
		if strings.HasPrefix(k, pre) {
			out = append(out, k[len(pre):])
		}
	})
	return out
}

// c03Subscriptions opens a GraphQL subscription, runs every history of length <= H and compares each
// pushed result with the ordinary query right after the triggering commit.
func c03Subscriptions(ctx context.Context, r *rep.Run, d *db.DB, st *vkv.Store, H int) int {
	checked := 0
	ops := []string{"set", "null", "inc1", "inc2"}
	var hist func(prefix []string)
	base := st.Snapshot()
	hist = func(prefix []string) {
		if len(prefix) > 0 {
			st.Restore(base)
			world.SeedRand("c03sub", fmt.Sprint(prefix))
			sctx, cancel := context.WithCancel(ctx)
			res := d.ExecRequest(sctx, `subscription { User { name c } }`)
			if len(res.GQL.Errors) > 0 || res.Subscription == nil {
				rep.HarnessError("subscription: %v", res.GQL.Errors)
			}
			recv := func() client.GQLResult {
				select {
				case x := <-res.Subscription:
					return x
				case <-time.After(60 * time.Second):
					rep.HarnessError("subscription produced no result within 60 s (history %v)", prefix)
				}
				panic("unreachable")
			}
			data, errs := world.Exec(ctx, d, `mutation { create_User(input: {name: "a", c: 1}) { _docID } }`)
			if len(errs) > 0 {
				rep.HarnessError("%v", errs)
			}
			docID := world.Rows(data, "create_User")[0]["_docID"].(string)
			cur := func() string {
				data, _ := world.Exec(ctx, d, fmt.Sprintf(`query { User(docID: %q) { name c } }`, docID))
				return world.Canon(world.Rows(data, "User"))
			}
			cmp := func(step int) {
				x := recv()
				got := world.Canon(world.Rows(x.Data, "User"))
				if len(x.Errors) > 0 {
					got += fmt.Sprint(x.Errors)
				}
				checked++
				if want := cur(); got != want {
					r.Violation(rep.Violation{Fingerprint: "C03:subscription-value", Summary: fmt.Sprintf("history %v step %d: subscription pushed %s, query after that commit %s", prefix, step, got, want),
						Replay: map[string]any{"engine": "c03-sub", "ops": prefix, "step": step}})
				}
			}
			cmp(0)
			for i, op := range prefix {
				if _, errs := world.Exec(ctx, d, c03req(op, i, docID)); len(errs) > 0 {
					rep.HarnessError("%v", errs)
				}
				cmp(i + 1)
			}
			cancel()
		}
		if len(prefix) < H {
			for _, op := range ops {
				hist(append(append([]string{}, prefix...), op))
			}
		}
	}
	// only maximal histories are run (each prefix is checked along the way)
	var leaves func(prefix []string)
	leaves = func(prefix []string) {
		if len(prefix) == H {
			save := H
			H = 0 // run just this history
			hist(prefix)
			H = save
			return
		}
		for _, op := range ops {
			leaves(append(append([]string{}, prefix...), op))
		}
	}
	leaves(nil)
	return checked
}
