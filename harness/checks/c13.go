package checks

import (
	"context"
	"fmt"
	"math"
	"runtime"
	"sort"
	"strings"
	"sync"
	"time"

	"github.com/sourcenetwork/immutable"

	"github.com/sourcenetwork/defradb/client"
	"github.com/sourcenetwork/defradb/internal/verifh/rep"
	"github.com/sourcenetwork/defradb/internal/verifh/vkv"
	"github.com/sourcenetwork/defradb/internal/verifh/vsched"
	"github.com/sourcenetwork/defradb/internal/verifh/world"
)

func init() { Register("C13", runC13) }

// ---------- schema / collection identifiers ----------

type c13link struct {
	from, to int
	many     bool // false: one-to-one with an explicit @primary on from; true: many-to-one (from holds the key, implied primary; to lists [from])
}

var c13names = []string{"A", "B", "C", "D"}

// c13SDL renders the type definitions of a relation graph. typeOrder permutes the types, revFields
// reverses the field order inside every type.
func c13Types(n int, links []c13link, revFields bool) []string {
	fields := make([][]string, n)
	for i := 0; i < n; i++ {
		fields[i] = []string{"name: String"}
	}
	for _, l := range links {
		rel := strings.ToLower(c13names[l.from] + c13names[l.to])
		if l.many {
			rel = "m" + rel
			fields[l.from] = append(fields[l.from], fmt.Sprintf(`k_%s: %s @relation(name: "%s")`, rel, c13names[l.to], rel))
			fields[l.to] = append(fields[l.to], fmt.Sprintf(`l_%s: [%s] @relation(name: "%s")`, rel, c13names[l.from], rel))
			continue
		}
		fields[l.from] = append(fields[l.from], fmt.Sprintf(`p_%s: %s @primary @relation(name: "%s")`, rel, c13names[l.to], rel))
		fields[l.to] = append(fields[l.to], fmt.Sprintf(`s_%s: %s @relation(name: "%s")`, rel, c13names[l.from], rel))
	}
	out := make([]string, n)
	for i := 0; i < n; i++ {
		f := fields[i]
		if revFields {
			f = append([]string{}, f...)
			for a, b := 0, len(f)-1; a < b; a, b = a+1, b-1 {
				f[a], f[b] = f[b], f[a]
			}
		}
		out[i] = fmt.Sprintf("type %s { %s }", c13names[i], strings.Join(f, "  "))
	}
	return out
}

// components returns the connected components (as sorted type index lists) of the graph.
func c13Components(n int, links []c13link) [][]int {
	parent := make([]int, n)
	for i := range parent {
		parent[i] = i
	}
	var find func(int) int
	find = func(x int) int {
		if parent[x] != x {
			parent[x] = find(parent[x])
		}
		return parent[x]
	}
	for _, l := range links {
		parent[find(l.from)] = find(l.to)
	}
	m := map[int][]int{}
	for i := 0; i < n; i++ {
		m[find(i)] = append(m[find(i)], i)
	}
	var out [][]int
	for _, c := range m {
		out = append(out, c)
	}
	sort.Slice(out, func(i, j int) bool { return out[i][0] < out[j][0] })
	return out
}

// c13Assign adds the schema in the given calls on a fresh database and returns name -> ids.
// order: chooser of map iteration orders (nil = default).
func c13Assign(ctx context.Context, calls []string, chooser func(site string, n int) []int) (string, int, error) {
	st := vkv.NewStore()
	d, err := world.NewDB(ctx, st)
	if err != nil {
		return "", 0, err
	}
	defer d.Close()
	ranges := 0
	vsched.SetMapOrder(func(site string, n int) []int {
		ranges++
		if chooser != nil {
			return chooser(site, n)
		}
		o := make([]int, n)
		for i := range o {
			o[i] = i
		}
		return o
	})
	defer vsched.SetMapOrder(nil)
	var ids []string
	for _, c := range calls {
		cols, err := d.AddSchema(ctx, c)
		if err != nil {
			return "", ranges, err
		}
		for _, col := range cols {
			ids = append(ids, fmt.Sprintf("%s:v=%s,c=%s", col.Name, col.VersionID, col.CollectionID))
		}
	}
	sort.Strings(ids)
	return strings.Join(ids, " "), ranges, nil
}

func perms(n int) [][]int {
	var out [][]int
	var rec func(cur []int, used []bool)
	rec = func(cur []int, used []bool) {
		if len(cur) == n {
			out = append(out, append([]int{}, cur...))
			return
		}
		for i := 0; i < n; i++ {
			if !used[i] {
				used[i] = true
				rec(append(cur, i), used)
				used[i] = false
			}
		}
	}
	rec(nil, make([]bool, n))
	return out
}

func runC13(args []string) int {
	r := rep.New("C13", "exploration")
	ctx := context.Background()
	tier := rep.Tier()
	type graph struct {
		n     int
		links []c13link
	}
	var graphs []graph
	gen := func(n, maxLinks int) {
		var all []c13link
		for a := 0; a < n; a++ {
			for b := 0; b < n; b++ {
				all = append(all, c13link{from: a, to: b})
			}
		}
		var rec func(start int, cur []c13link)
		rec = func(start int, cur []c13link) {
			graphs = append(graphs, graph{n, append([]c13link{}, cur...)})
			if len(cur) > 0 {
				// the same graph with many-to-one links (implied primary side): all of them, and in the
				// thorough tier every mix of the two kinds
				lo, hi := (1<<len(cur))-1, (1<<len(cur))-1
				if tier == "thorough" {
					lo = 1
				}
				for mask := lo; mask <= hi; mask++ {
					g := graph{n, append([]c13link{}, cur...)}
					for i := range g.links {
						g.links[i].many = mask&(1<<i) != 0
					}
					graphs = append(graphs, g)
				}
			}
			if len(cur) == maxLinks {
				return
			}
			for i := start; i < len(all); i++ {
				rec(i+1, append(cur, all[i]))
			}
		}
		rec(0, nil)
	}
	if tier == "thorough" {
		gen(3, 4)
		gen(4, 3)
	} else {
		gen(3, 3)
		gen(4, 2)
	}
	var mu sync.Mutex
	evals, distinct := 0, map[string]struct{}{}
	jobs := make(chan graph, len(graphs))
	for _, g := range graphs {
		jobs <- g
	}
	close(jobs)
	var wg sync.WaitGroup
	for w := 0; w < runtime.NumCPU(); w++ {
		wg.Add(1)
		go func() {
			defer wg.Done()
			for g := range jobs {
				types := c13Types(g.n, g.links, false)
				desc := fmt.Sprintf("%d types, primary links %v", g.n, g.links)
				base, nranges, err := c13Assign(ctx, []string{strings.Join(types, "\n")}, nil)
				if err != nil {
					// a graph the schema validation refuses (e.g. unsupported shape) is not in the space
					continue
				}
				n := 0
				check := func(what string, calls []string, chooser func(string, int) []int) {
					got, _, err := c13Assign(ctx, calls, chooser)
					n++
					if err != nil {
						r.Violation(rep.Violation{Fingerprint: "C13:schema-rejected-in-variant", Summary: fmt.Sprintf("%s; %s: accepted in canonical form but %v", desc, what, err),
							Replay: map[string]any{"engine": "c13-schema", "graph": desc, "variant": what, "calls": calls}})
						return
					}
					if got != base {
						class := "schema-ids-depend-on-" + strings.Fields(what)[0]
						r.Violation(rep.Violation{Fingerprint: "C13:" + class, Summary: fmt.Sprintf("%s; %s:\n canonical %s\n variant   %s", desc, what, base, got),
							Replay: map[string]any{"engine": "c13-schema", "graph": desc, "variant": what, "calls": calls}})
					}
				}
				// repeated run, SDL permutations, field order, partitions into calls
				check("repeat", []string{strings.Join(types, "\n")}, nil)
				for _, p := range perms(g.n) {
					var ts []string
					for _, i := range p {
						ts = append(ts, types[i])
					}
					check(fmt.Sprintf("sdl-order %v", p), []string{strings.Join(ts, "\n")}, nil)
				}
				check("field-order reversed", []string{strings.Join(c13Types(g.n, g.links, true), "\n")}, nil)
				comps := c13Components(g.n, g.links)
				if len(comps) > 1 {
					for _, p := range perms(len(comps)) {
						var calls []string
						for _, ci := range p {
							var ts []string
							for _, t := range comps[ci] {
								ts = append(ts, types[t])
							}
							calls = append(calls, strings.Join(ts, "\n"))
						}
						check(fmt.Sprintf("partition into %d calls, order %v", len(comps), p), calls, nil)
					}
				}
				// map iteration orders inside getSchemaSets: one deviating range occurrence at a time
				// (every occurrence x every permutation), plus "all occurrences reversed"
				for occ := 0; occ < nranges; occ++ {
					for pi, p := range perms(4) {
						if pi == 0 {
							continue
						}
						k := 0
						p := p
						occ := occ
						check(fmt.Sprintf("map-order occurrence %d permutation %v", occ, p), []string{strings.Join(types, "\n")}, func(site string, n int) []int {
							defer func() { k++ }()
							o := make([]int, 0, n)
							if k == occ {
								for _, x := range p {
									if x < n {
										o = append(o, x)
									}
								}
								return o
							}
							for i := 0; i < n; i++ {
								o = append(o, i)
							}
							return o
						})
					}
				}
				check("map-order all reversed", []string{strings.Join(types, "\n")}, func(site string, n int) []int {
					o := make([]int, n)
					for i := range o {
						o[i] = n - 1 - i
					}
					return o
				})
				mu.Lock()
				evals += n
				distinct[base] = struct{}{}
				mu.Unlock()
				if len(g.links) == 3 && g.links[0].from != g.links[0].to {
					r.Sample(map[string]any{"graph": desc, "sdl": types, "assignment": base, "variants_compared": n, "map_range_occurrences": nranges})
				}
			}
		}()
	}
	wg.Wait()
	de, dd := c13DocIDs(r)
	r.Coverage["evaluations"] = evals + de
	r.Coverage["distinct_nontrivial"] = len(distinct) + dd
	r.Coverage["rule"] = "schema part: every relation graph (primary links incl. self and mutual links) up to the bound x {repeat, every permutation of the SDL, reversed field order, every ordering of the partition into independent AddSchema calls, every single deviating map-iteration order in getSchemaSets, all reversed}; each evaluation = one assignment of (VersionID, CollectionID) on a fresh database compared with the canonical one; distinct = distinct assignments. document part: see docid_* keys"
	r.Coverage["relation_graphs"] = len(graphs)
	r.Coverage["exhaustive"] = true
	r.Assumptions = []string{"map iteration order is owned by rewriting the two map ranges of getSchemaSets to vsched.RangeMap (overlay build)"}
	return r.Finish()
}

// ---------- document identifiers ----------

func c13DocIDs(r *rep.Run) (evals, distinct int) {
	ctx := context.Background()
	st := vkv.NewStore()
	d, err := world.NewDB(ctx, st)
	if err != nil {
		rep.HarnessError("%v", err)
	}
	defer d.Close()
	sdl := `type K { i: Int  f: Float  s: String  b: Boolean  t: DateTime  j: JSON  ai: [Int]  as: [String!]  bl: Blob  af: [Float] }`
	if _, err := d.AddSchema(ctx, sdl); err != nil {
		rep.HarnessError("%v", err)
	}
	col, err := d.GetCollectionByName(ctx, "K")
	if err != nil {
		rep.HarnessError("%v", err)
	}
	base := st.Snapshot()
	// per field: JSON literal, GraphQL literal, Go value for NewDocFromMap
	type val struct {
		json, gql string
		goval     any
		alts      []any // other Go representations of the same value accepted by NewDocFromMap
	}
	mustTime := func(s string) time.Time {
		t, err := time.Parse(time.RFC3339Nano, s)
		if err != nil {
			rep.HarnessError("%v", err)
		}
		return t
	}
	alphabet := map[string][]val{
		"i": {{"0", "0", int64(0), []any{int(0), int32(0), float64(0)}}, {"-1", "-1", int64(-1), []any{int(-1), int8(-1)}},
			{"2147483647", "2147483647", int64(2147483647), []any{int(2147483647), uint32(2147483647), float64(2147483647)}}},
		"f": {{"0.5", "0.5", 0.5, []any{float32(0.5)}}, {"1e21", "1e21", 1e21, nil}, {"-3.25", "-3.25", -3.25, []any{float32(-3.25)}},
			{"2", "2.0", float64(2), []any{int(2), int64(2), float32(2)}}, {"2", "2", float64(2), nil}, {"-0.0", "-0.0", math.Copysign(0, -1), nil}},
		"s": {{`""`, `""`, "", nil}, {`"x"`, `"x"`, "x", nil}, {`"日本 \" q"`, `"日本 \" q"`, "日本 \" q", nil}},
		"b": {{"true", "true", true, nil}, {"false", "false", false, nil}},
		"t": {{`"2024-02-29T23:59:59.999999999Z"`, `"2024-02-29T23:59:59.999999999Z"`, "2024-02-29T23:59:59.999999999Z", []any{mustTime("2024-02-29T23:59:59.999999999Z")}},
			{`"2020-06-01T12:00:00+02:00"`, `"2020-06-01T12:00:00+02:00"`, "2020-06-01T12:00:00+02:00", []any{mustTime("2020-06-01T12:00:00+02:00")}},
			{`"2020-06-01T12:00:00Z"`, `"2020-06-01T12:00:00Z"`, "2020-06-01T12:00:00Z", []any{mustTime("2020-06-01T12:00:00Z")}}},
		"j": {{`{"b": 1, "a": [1, "x", null]}`, `{a: [1, "x", null], b: 1}`, map[string]any{"a": []any{1, "x", nil}, "b": 1},
			[]any{map[string]any{"b": int64(1), "a": []any{int64(1), "x", nil}}, map[string]any{"b": float64(1), "a": []any{float64(1), "x", nil}}}},
			{`{"n": {"m": {"z": 1.5, "y": true}}}`, `{n: {m: {y: true, z: 1.5}}}`, map[string]any{"n": map[string]any{"m": map[string]any{"y": true, "z": 1.5}}}, nil}},
		"ai": {{"[1, 2, 3]", "[1, 2, 3]", []int64{1, 2, 3}, []any{[]any{1, 2, 3}, []any{int64(1), int64(2), int64(3)}, []any{float64(1), float64(2), float64(3)}, []int{1, 2, 3}}},
			{"[]", "[]", []int64{}, []any{[]any{}}},
			{"[1, null]", "[1, null]", []immutable.Option[int64]{immutable.Some(int64(1)), immutable.None[int64]()}, []any{[]any{1, nil}, []any{float64(1), nil}}}},
		"as": {{`["a", ""]`, `["a", ""]`, []string{"a", ""}, []any{[]any{"a", ""}}}},
		"bl": {{`"00ff10"`, `"00ff10"`, "00ff10", nil}, {`"DEADbeef"`, `"DEADbeef"`, "DEADbeef", nil}},
		"af": {{"[1.5, 2]", "[1.5, 2.0]", []float64{1.5, 2}, []any{[]any{1.5, 2}, []any{1.5, float64(2)}, []any{1.5, int64(2)}}},
			{"[1.5, null]", "[1.5, null]", []immutable.Option[float64]{immutable.Some(1.5), immutable.None[float64]()}, []any{[]any{1.5, nil}}}},
	}
	fieldNames := []string{"i", "f", "s", "b", "t", "j", "ai", "as", "bl", "af"}
	seen := map[string]struct{}{}
	rejected := 0
	// every non-empty subset of <= 3 fields x every value combination x routes x field permutations x null-vs-omitted
	var rec func(start int, cur []string)
	var subsets [][]string
	rec = func(start int, cur []string) {
		if len(cur) > 0 {
			subsets = append(subsets, append([]string{}, cur...))
		}
		if len(cur) == 3 {
			return
		}
		for i := start; i < len(fieldNames); i++ {
			rec(i+1, append(cur, fieldNames[i]))
		}
	}
	rec(0, nil)
	for _, sub := range subsets {
		var combos [][]val
		var rc func(i int, cur []val)
		rc = func(i int, cur []val) {
			if i == len(sub) {
				combos = append(combos, append([]val{}, cur...))
				return
			}
			for _, v := range alphabet[sub[i]] {
				rc(i+1, append(cur, v))
			}
		}
		rc(0, nil)
		for _, combo := range combos {
			ids := map[string]string{}
			record := func(route, id string, err error) {
				evals++
				if err != nil {
					ids[route] = "ERROR " + err.Error()
					return
				}
				ids[route] = id
			}
			desc := ""
			for pi, p := range perms(len(sub)) {
				var jp, gp []string
				m := map[string]any{}
				for _, k := range p {
					jp = append(jp, fmt.Sprintf("%q: %s", sub[k], combo[k].json))
					gp = append(gp, fmt.Sprintf("%s: %s", sub[k], combo[k].gql))
					m[sub[k]] = combo[k].goval
				}
				if pi == 0 {
					desc = "{" + strings.Join(jp, ", ") + "}"
				}
				doc, err := client.NewDocFromJSON([]byte("{"+strings.Join(jp, ", ")+"}"), col.Definition())
				if err == nil {
					record(fmt.Sprintf("json perm %v", p), doc.ID().String(), nil)
				} else {
					record(fmt.Sprintf("json perm %v", p), "", err)
				}
				if pi == 0 {
					// omitted vs explicit null for the other fields
					var withNull []string
					withNull = append(withNull, jp...)
					for _, f := range fieldNames {
						if _, ok := m[f]; !ok {
							withNull = append(withNull, fmt.Sprintf("%q: null", f))
						}
					}
					doc, err := client.NewDocFromJSON([]byte("{"+strings.Join(withNull, ", ")+"}"), col.Definition())
					if err == nil {
						record("json with explicit nulls", doc.ID().String(), nil)
					} else {
						record("json with explicit nulls", "", err)
					}
					doc2, err := client.NewDocFromMap(m, col.Definition())
					if err == nil {
						record("map", doc2.ID().String(), nil)
					} else {
						record("map", "", err)
					}
					// the same values in every other Go representation the map route accepts (one field at a time)
					for k := range sub {
						for ai, alt := range combo[k].alts {
							m2 := map[string]any{}
							for kk, vv := range m {
								m2[kk] = vv
							}
							m2[sub[k]] = alt
							route := fmt.Sprintf("map with %s as %T (alternative %d)", sub[k], alt, ai)
							if d3, err := client.NewDocFromMap(m2, col.Definition()); err == nil {
								record(route, d3.ID().String(), nil)
							} else {
								rejected++ // a Go type the map route refuses is not a construction route
							}
						}
					}
					st.Restore(base)
					data, errs := world.Exec(ctx, d, fmt.Sprintf(`mutation { create_K(input: {%s}) { _docID } }`, strings.Join(gp, ", ")))
					if len(errs) > 0 {
						record("graphql", "", fmt.Errorf("%v", errs))
					} else {
						record("graphql", world.Rows(data, "create_K")[0]["_docID"].(string), nil)
					}
					st.Restore(base)
					if doc != nil {
						// the id the collection API assigns on create is the id computed up front
						if err := col.Create(ctx, doc2); err == nil {
							data, _ := world.Exec(ctx, d, `query { K { _docID } }`)
							rows := world.Rows(data, "K")
							if len(rows) == 1 {
								record("stored", rows[0]["_docID"].(string), nil)
							}
						}
						st.Restore(base)
					}
				}
			}
			uniq := map[string][]string{}
			for route, id := range ids {
				uniq[id] = append(uniq[id], route)
			}
			for id := range uniq {
				seen[id] = struct{}{}
			}
			if len(uniq) > 1 {
				var parts []string
				for id, routes := range uniq {
					sort.Strings(routes)
					parts = append(parts, fmt.Sprintf("%s <- %v", id, routes))
				}
				sort.Strings(parts)
				class := "docid-depends-on-route:" + strings.Join(sub, "+")
				r.Violation(rep.Violation{Fingerprint: "C13:" + class, Summary: fmt.Sprintf("document %s gets different ids: %s", desc, strings.Join(parts, " | ")),
					Replay: map[string]any{"engine": "c13-docid", "document": desc}})
			}
			if evals%997 == 0 {
				r.Sample(map[string]any{"document": desc, "routes": len(ids), "docID": ids["map"]})
			}
		}
	}
	r.Coverage["docid_evaluations"] = evals
	r.Coverage["docid_go_representations_rejected_by_the_map_route"] = rejected
	r.Coverage["docid_distinct_documents"] = len(seen)
	return evals, len(seen)
}
