// Package checks holds one entry point per property.
package checks

import "sort"

type Func func(args []string) int

var reg = map[string]Func{}

func Register(name string, f Func) { reg[name] = f }
func Get(name string) Func         { return reg[name] }
func Names() []string {
	var ns []string
	for n := range reg {
		ns = append(ns, n)
	}
	sort.Strings(ns)
	return ns
}
