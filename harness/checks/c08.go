package checks

import (
	"context"
	"fmt"
	"math"
	"runtime"
	"sort"
	"strings"
	"sync"

	"github.com/sourcenetwork/defradb/internal/db"
	"github.com/sourcenetwork/defradb/internal/verifh/qx"
	"github.com/sourcenetwork/defradb/internal/verifh/rep"
	"github.com/sourcenetwork/defradb/internal/verifh/vkv"
	"github.com/sourcenetwork/defradb/internal/verifh/world"
)

func init() { Register("C08", runC08) }

const c08SDL = `type T { u: Int  a: Int  b: Int  s: String }`

type qnode struct {
	ctx  context.Context
	st   *vkv.Store
	db   *db.DB
	base vkv.Snap
}

func newQNode(sdl string) (*qnode, error) {
	ctx := context.Background()
	st := vkv.NewStore()
	d, err := world.NewDB(ctx, st)
	if err != nil {
		return nil, err
	}
	if _, err := d.AddSchema(ctx, sdl); err != nil {
		return nil, err
	}
	return &qnode{ctx: ctx, st: st, db: d, base: st.Snapshot()}, nil
}

func (n *qnode) load(docs []qx.Doc) error {
	n.st.Restore(n.base)
	if len(docs) == 0 {
		return nil
	}
	var ins []string
	for _, d := range docs {
		ins = append(ins, d.Input())
	}
	_, errs := world.Exec(n.ctx, n.db, fmt.Sprintf(`mutation { create_T(input: [%s]) { _docID } }`, strings.Join(ins, ", ")))
	if len(errs) > 0 {
		return fmt.Errorf("%v", errs)
	}
	return nil
}

// us extracts the sequence of u values of a listing.
func us(rows []map[string]any) []int {
	out := make([]int, 0, len(rows))
	for _, r := range rows {
		if v, ok := r["u"].(int64); ok {
			out = append(out, int(v))
		} else {
			out = append(out, -1)
		}
	}
	return out
}

func sortedInts(x []int) []int { y := append([]int{}, x...); sort.Ints(y); return y }

func eqInts(a, b []int) bool {
	if len(a) != len(b) {
		return false
	}
	for i := range a {
		if a[i] != b[i] {
			return false
		}
	}
	return true
}

type c08stats struct {
	mu                          sync.Mutex
	evals, refChecked, metaOnly int
	outcomes                    map[string]struct{}
}

func runC08(args []string) int {
	r := rep.New("C08", "exploration")
	tier := rep.Tier()
	k := 3
	if tier == "thorough" {
		k = 4
	}
	var sets [][]qx.Doc
	sets = append(sets, qx.DocSets(qx.Shapes(false), k)...)
	nNoNull := len(sets)
	sets = append(sets, qx.DocSets(qx.Shapes(true), k)...)
	filters := qx.Filters(tier == "thorough")
	orders := qx.Orders()
	st := &c08stats{outcomes: map[string]struct{}{}}
	jobs := make(chan int, len(sets))
	for i := range sets {
		jobs <- i
	}
	close(jobs)
	var wg sync.WaitGroup
	for w := 0; w < runtime.NumCPU(); w++ {
		wg.Add(1)
		go func() {
			defer wg.Done()
			n, err := newQNode(c08SDL)
			if err != nil {
				rep.HarnessError("%v", err)
			}
			defer n.db.Close()
			for i := range jobs {
				c08DocSet(r, st, n, sets[i], filters, orders, i%37 == 0)
			}
		}()
	}
	wg.Wait()
	panics, corpus := c08NoPanic(r)
	arr := c08Arrays(r)
	r.Coverage["inline_array_aggregate_requests"] = arr
	grp := c08GroupKeys(r)
	r.Coverage["group_key_requests"] = grp
	r.Coverage["evaluations"] = st.evals + corpus + arr + grp
	r.Coverage["distinct_nontrivial"] = len(st.outcomes)
	r.Coverage["rule"] = "one evaluation = one request executed on one document set; document sets = all multisets of <=k documents over the value alphabet (null-free and with nulls), requests = all terms of the grammar (atoms, _not, _and/_or pairs, 1-2 order keys x directions, limit/offset, aggregates, groupBy); distinct_nontrivial = number of distinct (request, canonical result) pairs with a non-empty result"
	r.Coverage["document_sets"] = len(sets)
	r.Coverage["document_sets_null_free"] = nNoNull
	r.Coverage["filters"] = len(filters)
	r.Coverage["orders"] = len(orders)
	r.Coverage["checked_against_reference"] = st.refChecked
	r.Coverage["checked_metamorphic_only"] = st.metaOnly
	r.Coverage["no_panic_corpus_requests"] = corpus
	r.Coverage["panics_or_hangs"] = panics
	r.Coverage["exhaustive"] = true
	r.Coverage["bounds"] = map[string]any{"max_docs": k}
	r.Assumptions = []string{"reference evaluator written from docs/website/references/query-specification; silent where the documentation is (nulls): there only metamorphic relations are checked"}
	return r.Finish()
}

func c08DocSet(r *rep.Run, st *c08stats, n *qnode, docs []qx.Doc, filters []qx.Filter, orders [][]qx.OrderKey, sample bool) {
	if err := n.load(docs); err != nil {
		rep.HarnessError("load %v: %v", docs, err)
	}
	desc := func() string {
		var ps []string
		for _, d := range docs {
			ps = append(ps, d.String())
		}
		return strings.Join(ps, " ")
	}
	evals, refc, meta := 0, 0, 0
	local := map[string]struct{}{}
	q := func(req string) ([]map[string]any, any, bool) {
		data, errs, hung, pan := world.ExecGuard(n.ctx, n.db, req)
		evals++
		if hung || pan != nil {
			r.Violation(rep.Violation{Fingerprint: "C08:panic-or-hang:" + reqShape(req), Summary: fmt.Sprintf("docs %s request %s: hung=%v panic=%v", desc(), req, hung, pan),
				Replay: map[string]any{"engine": "qx", "docs": desc(), "request": req}})
			return nil, nil, false
		}
		if len(errs) > 0 {
			r.Violation(rep.Violation{Fingerprint: "C08:valid-request-rejected:" + reqShape(req), Summary: fmt.Sprintf("docs %s request %s: %v", desc(), req, errs),
				Replay: map[string]any{"engine": "qx", "docs": desc(), "request": req}})
			return nil, nil, false
		}
		rows := world.Rows(data, "T")
		if len(rows) > 0 {
			local[req+"=>"+world.Canon(rows)] = struct{}{}
		}
		return rows, data, true
	}
	viol := func(class, req, detail string) {
		r.Violation(rep.Violation{Fingerprint: "C08:" + class, Summary: fmt.Sprintf("docs %s\n request %s\n %s", desc(), req, detail),
			Replay: map[string]any{"engine": "qx", "docs": desc(), "request": req}})
	}
	all := make([]int, len(docs))
	for i := range docs {
		all[i] = i
	}
	// ---- filters ----
	results := map[string][]int{}
	for _, f := range filters {
		req := fmt.Sprintf(`query { T(filter: %s) { u a b s } }`, f.GQL())
		rows, _, ok := q(req)
		if !ok {
			continue
		}
		got := sortedInts(us(rows))
		results[f.GQL()] = got
		// reference (only where the documented semantics are defined for every document)
		var want []int
		defined := true
		for _, d := range docs {
			m, def := f.Eval(d)
			if !def {
				defined = false
				break
			}
			if m {
				want = append(want, d.U)
			}
		}
		if defined {
			refc++
			if !eqInts(got, sortedInts(want)) {
				viol("filter-vs-reference:"+filterShape(f), req, fmt.Sprintf("returned u=%v, documented semantics give u=%v", got, want))
			}
		} else {
			meta++
		}
		// metamorphic: compound filters are the set operations of their parts
		switch c := f.(type) {
		case qx.And:
			if l, ok1 := results[c.L.GQL()]; ok1 {
				if rr, ok2 := results[c.R.GQL()]; ok2 && !eqInts(got, inter(l, rr)) {
					viol("and-not-intersection", req, fmt.Sprintf("returned %v, parts %v and %v", got, l, rr))
				}
			}
		case qx.Or:
			if l, ok1 := results[c.L.GQL()]; ok1 {
				if rr, ok2 := results[c.R.GQL()]; ok2 && !eqInts(got, union(l, rr)) {
					viol("or-not-union", req, fmt.Sprintf("returned %v, parts %v and %v", got, l, rr))
				}
			}
		case qx.Not:
			if in, ok1 := results[c.F.GQL()]; ok1 {
				if len(inter(got, in)) != 0 || !eqInts(union(got, in), all) {
					viol("not-is-no-partition", req, fmt.Sprintf("F returns %v, _not F returns %v, collection %v", in, got, all))
				}
			}
		}
	}
	// aggregates over filters = arithmetic over the listing of the same filter
	aggFilters := []qx.Filter{nil}
	for i, f := range filters {
		if i%9 == 0 {
			aggFilters = append(aggFilters, f)
		}
	}
	for _, f := range aggFilters {
		farg, key := "", ""
		if f != nil {
			farg = "filter: " + f.GQL()
			key = f.GQL()
		}
		var listed []qx.Doc
		if f == nil {
			listed = docs
		} else {
			got, ok := results[key]
			if !ok {
				continue
			}
			for _, u := range got {
				listed = append(listed, docs[u])
			}
		}
		{
			req := fmt.Sprintf(`query { _count(T: {%s}) }`, farg)
			_, data, ok := q(req)
			if ok {
				if c := toInt(data.(map[string]any)["_count"]); int(c) != len(listed) {
					viol("count", req, fmt.Sprintf("_count=%d, listing has %d", c, len(listed)))
				}
			}
		}
		for _, fld := range []string{"a", "b"} {
			var vals []int64
			for _, d := range listed {
				if p := d.Int(fld); p != nil {
					vals = append(vals, *p)
				}
			}
			sep := ""
			if farg != "" {
				sep = ", "
			}
			for _, fn := range []string{"_sum", "_avg", "_min", "_max"} {
				req := fmt.Sprintf(`query { %s(T: {field: %s%s%s}) }`, fn, fld, sep, farg)
				_, data, ok := q(req)
				if !ok {
					continue
				}
				got := data.(map[string]any)[fn]
				local[req+"=>"+fmt.Sprint(got)] = struct{}{}
				var sum int64
				for _, v := range vals {
					sum += v
				}
				switch fn {
				case "_sum":
					if g := toInt(got); g != sum {
						viol("sum", req, fmt.Sprintf("_sum=%v, listed values %v", got, vals))
					}
				case "_avg":
					if len(vals) > 0 {
						g, _ := got.(float64)
						if math.Abs(g-float64(sum)/float64(len(vals))) > 1e-9 {
							viol("avg", req, fmt.Sprintf("_avg=%v, listed values %v", got, vals))
						}
					}
				case "_min", "_max":
					if len(vals) > 0 {
						w := vals[0]
						for _, v := range vals {
							if fn == "_min" && v < w || fn == "_max" && v > w {
								w = v
							}
						}
						if g := toInt(got); got == nil || g != w {
							viol(strings.TrimPrefix(fn, "_"), req, fmt.Sprintf("%s=%v, listed values %v", fn, got, vals))
						}
					}
				}
			}
		}
	}
	// ---- order, limit, offset ----
	for _, keys := range orders {
		req := fmt.Sprintf(`query { T(order: %s) { u a b s } }`, qx.OrderGQL(keys))
		rows, _, ok := q(req)
		if !ok {
			continue
		}
		seq := us(rows)
		if !eqInts(sortedInts(seq), all) {
			viol("order-changes-result-set", req, fmt.Sprintf("returned u=%v", seq))
			continue
		}
		gotKeys := make([]string, len(seq))
		for i, u := range seq {
			gotKeys[i] = qx.KeyTuple(docs[u], keys)
		}
		nullInKey := false
		for _, d := range docs {
			if strings.Contains(qx.KeyTuple(d, keys), "null") {
				nullInKey = true
			}
		}
		if !nullInKey {
			refc++
			want := qx.SortedKeyTuples(docs, keys)
			if strings.Join(gotKeys, ";") != strings.Join(want, ";") {
				class := "order-single-key"
				if len(keys) > 1 {
					class = "order-secondary-key-ignored"
					// is at least the first key right?
					first := qx.SortedKeyTuples(docs, keys[:1])
					g1 := make([]string, len(seq))
					for i, u := range seq {
						g1[i] = qx.KeyTuple(docs[u], keys[:1])
					}
					if strings.Join(g1, ";") != strings.Join(first, ";") {
						class = "order-first-key"
					}
				}
				viol(class, req, fmt.Sprintf("sort keys returned %v, documented order %v", gotKeys, want))
			}
		} else {
			meta++
		}
		for _, lo := range [][2]int{{1, 0}, {2, 0}, {1, 1}, {2, 1}, {0, 1}} {
			var args []string
			if lo[0] > 0 {
				args = append(args, fmt.Sprintf("limit: %d", lo[0]))
			}
			if lo[1] > 0 {
				args = append(args, fmt.Sprintf("offset: %d", lo[1]))
			}
			req2 := fmt.Sprintf(`query { T(order: %s, %s) { u a b s } }`, qx.OrderGQL(keys), strings.Join(args, ", "))
			rows2, _, ok := q(req2)
			if !ok {
				continue
			}
			seq2 := us(rows2)
			wantKeys := qx.Slice(gotKeys, lo[0], lo[1])
			if len(seq2) != len(wantKeys) {
				viol("limit-offset-length", req2, fmt.Sprintf("returned %d rows, the unlimited ordered result sliced has %d", len(seq2), len(wantKeys)))
				continue
			}
			for i, u := range seq2 {
				if u < 0 || u >= len(docs) || qx.KeyTuple(docs[u], keys) != wantKeys[i] {
					viol("limit-offset-not-a-slice", req2, fmt.Sprintf("returned u=%v, unlimited ordered result u=%v", seq2, seq))
					break
				}
			}
		}
	}
	// ---- groupBy, alone and combined with filters (incl. compound ones) and aggregates ----
	type gcase struct {
		g    string
		f    qx.Filter
		want []int
	}
	gcases := []gcase{{"a", nil, all}, {"b", nil, all}}
	for i, f := range filters {
		if i%11 == 0 || (i > len(filters)-40 && i%5 == 0) {
			if got, ok := results[f.GQL()]; ok {
				gcases = append(gcases, gcase{[]string{"a", "b"}[i%2], f, got})
			}
		}
	}
	for _, gc := range gcases {
		g, all := gc.g, gc.want
		farg := ""
		if gc.f != nil {
			farg = ", filter: " + gc.f.GQL()
		}
		req := fmt.Sprintf(`query { T(groupBy: [%s]%s) { %s _count(_group: {}) _sum(_group: {field: u}) _group { u } } }`, g, farg, g)
		rows, _, ok := q(req)
		if !ok {
			continue
		}
		seen := map[string]bool{}
		var members []int
		for _, row := range rows {
			key := world.Canon(row[g])
			if seen[key] {
				viol("groupby-duplicate-group", req, "group key "+key+" appears twice")
			}
			seen[key] = true
			grp := world.Rows(map[string]any{"x": row["_group"]}, "x")
			if c := toInt(row["_count"]); int(c) != len(grp) {
				viol("groupby-count", req, fmt.Sprintf("group %s: _count=%d, %d members", key, c, len(grp)))
			}
			var usum int64
			for _, m := range us(grp) {
				usum += int64(m)
			}
			if sgot := toInt(row["_sum"]); sgot != usum {
				viol("groupby-sum", req, fmt.Sprintf("group %s: _sum(u)=%d, members sum to %d", key, sgot, usum))
			}
			for _, m := range us(grp) {
				members = append(members, m)
				if m >= 0 && m < len(docs) {
					want := "null"
					if p := docs[m].Int(g); p != nil {
						want = fmt.Sprint(*p)
					}
					if want != key {
						viol("groupby-wrong-group", req, fmt.Sprintf("document u%d with %s=%s is in group %s", m, g, want, key))
					}
				}
			}
		}
		if !eqInts(sortedInts(members), all) {
			viol("groupby-not-a-partition", req, fmt.Sprintf("members of all groups %v, the listing of the same filter %v", members, all))
		}
	}
	st.mu.Lock()
	st.evals += evals
	st.refChecked += refc
	st.metaOnly += meta
	for k := range local {
		st.outcomes[k] = struct{}{}
	}
	st.mu.Unlock()
	if sample && len(docs) >= 2 {
		r.Sample(map[string]any{"docs": desc(), "requests_run": evals, "example_request": fmt.Sprintf(`query { T(filter: %s, order: %s) { u a b s } }`, filters[len(filters)/2].GQL(), qx.OrderGQL(orders[len(orders)-1]))})
	}
}

func inter(a, b []int) []int {
	m := map[int]bool{}
	for _, x := range b {
		m[x] = true
	}
	out := []int{}
	for _, x := range a {
		if m[x] {
			out = append(out, x)
		}
	}
	return sortedInts(out)
}

func union(a, b []int) []int {
	m := map[int]bool{}
	for _, x := range a {
		m[x] = true
	}
	for _, x := range b {
		m[x] = true
	}
	out := []int{}
	for x := range m {
		out = append(out, x)
	}
	return sortedInts(out)
}

func filterShape(f qx.Filter) string {
	switch c := f.(type) {
	case qx.Cond:
		return c.Field + c.Op
	case qx.And:
		return "_and"
	case qx.Or:
		return "_or"
	case qx.Not:
		return "_not(" + filterShape(c.F) + ")"
	}
	return "?"
}

// reqShape abstracts a request to its structure (for violation classes).
func reqShape(req string) string {
	var b strings.Builder
	depth := 0
	for _, tok := range strings.FieldsFunc(req, func(r rune) bool { return strings.ContainsRune(" \t\n,", r) }) {
		if depth < 3 && (strings.HasPrefix(tok, "_") || strings.HasSuffix(tok, ":") || strings.Contains(tok, "(")) {
			b.WriteString(strings.Trim(tok, `"0123456789`))
			b.WriteByte(' ')
		}
		depth += strings.Count(tok, "{") - strings.Count(tok, "}")
	}
	s := b.String()
	if len(s) > 80 {
		s = s[:80]
	}
	return s
}

func toInt(v any) int64 {
	switch x := v.(type) {
	case int:
		return int64(x)
	case int64:
		return x
	case uint64:
		return int64(x)
	case float64:
		return int64(x)
	}
	return 0
}
