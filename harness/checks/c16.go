package checks

// C16 — concurrent use of one node is race-free and loses no committed effect (DESIGN.md §4 C16).
//
// Stateless exploration of the real code under the cooperative scheduler vsched: every schedule of
// a small driver with at most B preemptions (B = 0, 1, 2) is executed; scheduling points are the
// sync / channel operations of the rewritten repository files (tools/rewrite) and the visible
// operations of the store device. Scenarios:
//   S1 a transaction from NewConcurrentTxnFrom shared by threads: never two threads inside the inner
//      (not thread-safe) store transaction; committed content = every acknowledged write;
//   S2 the merge queue: mutual exclusion per key, no lost wake-up (deadlock);
//   S3 the event bus: per-publisher FIFO at every subscriber, nothing after Unsubscribe returned,
//      no deadlock;
//   S4 API calls of two threads on one node (updates of one document, increments of one counter,
//      create of the same document, delete): final state = reference applied to exactly the calls
//      that reported success, a reported conflict leaves no trace, counter = sum of the successful
//      increments, no panic, no deadlock.

import (
	"context"
	"encoding/json"
	"fmt"
	"os"
	"sort"
	"strings"
	"sync/atomic"
	"time"

	"github.com/sourcenetwork/corekv"

	"github.com/sourcenetwork/defradb/event"
	"github.com/sourcenetwork/defradb/internal/datastore"
	"github.com/sourcenetwork/defradb/internal/db"
	"github.com/sourcenetwork/defradb/internal/verifh/rep"
	"github.com/sourcenetwork/defradb/internal/verifh/vkv"
	"github.com/sourcenetwork/defradb/internal/verifh/vsched"
	"github.com/sourcenetwork/defradb/internal/verifh/world"
)

func init() { Register("C16", runC16) }

// ---------- monitored inner transaction (S1) ----------

type monStore struct {
	*vkv.Store
	inside   *int32
	overlaps *int32
}

type monTxn struct {
	corekv.Txn
	m *monStore
}

func (s *monStore) NewTxn(ro bool) corekv.Txn { return &monTxn{Txn: s.Store.NewTxn(ro), m: s} }

// enter marks the calling thread as being inside the inner transaction, with a scheduling point
// while it is inside: any other thread that gets in meanwhile is an overlap.
func (t *monTxn) enter() func() {
	if atomic.AddInt32(t.m.inside, 1) > 1 {
		atomic.AddInt32(t.m.overlaps, 1)
	}
	vsched.Yield()
	return func() { atomic.AddInt32(t.m.inside, -1) }
}

func (t *monTxn) Get(ctx context.Context, k []byte) ([]byte, error) {
	defer t.enter()()
	return t.Txn.Get(ctx, k)
}
func (t *monTxn) Has(ctx context.Context, k []byte) (bool, error) {
	defer t.enter()()
	return t.Txn.Has(ctx, k)
}
func (t *monTxn) Set(ctx context.Context, k, v []byte) error {
	defer t.enter()()
	return t.Txn.Set(ctx, k, v)
}
func (t *monTxn) Delete(ctx context.Context, k []byte) error {
	defer t.enter()()
	return t.Txn.Delete(ctx, k)
}

type c16Stats struct {
	executions, maxPoints, scenarios int64
	outcomes                         map[string]map[string]int
	boundDone                        map[string]int
}

var c16Progress int64

func runC16(args []string) int {
	r := rep.New("C16", "model_checking")
	if len(args) >= 2 && args[0] == "replay" {
		b, err := os.ReadFile(args[1])
		if err != nil {
			rep.HarnessError("replay: %v", err)
		}
		var f struct {
			Replay struct {
				Scenario string `json:"scenario"`
				Schedule []int  `json:"schedule"`
			} `json:"replay"`
		}
		if err := json.Unmarshal(b, &f); err != nil {
			rep.HarnessError("replay: %v", err)
		}
		for _, sc := range c16Scenarios() {
			if sc.name != f.Replay.Scenario {
				continue
			}
			var obs *c16Obs
			vsched.Setup = sc.setup
			res := vsched.Replay(f.Replay.Schedule, func() {
				obs = &c16Obs{vals: map[string]any{}, errs: map[string]error{}}
				sc.body(obs)
			})
			vsched.Setup = nil
			if obs.finish != nil {
				obs.finish()
			}
			out, viol := "", ""
			if !res.Deadlock && res.Panic == nil {
				out, viol = sc.check(obs)
			}
			fmt.Printf("scenario %s schedule %v\noutcome=%s\nviolation=%q deadlock=%v panic=%v\n", sc.name, f.Replay.Schedule, out, viol, res.Deadlock, res.Panic)
			if viol != "" || res.Deadlock || res.Panic != nil {
				return 1
			}
			return 0
		}
		rep.HarnessError("replay: unknown scenario %q", f.Replay.Scenario)
	}
	thorough := rep.Tier() == "thorough"
	maxBound := 2
	st := &c16Stats{outcomes: map[string]map[string]int{}, boundDone: map[string]int{}}
	// liveness watchdog of the harness: no scheduling progress for 120 s is a harness error
	go func() {
		last, lastT := int64(-1), time.Now()
		for {
			time.Sleep(5 * time.Second)
			p := atomic.LoadInt64(&c16Progress)
			if p != last {
				last, lastT = p, time.Now()
			} else if time.Since(lastT) > 120*time.Second {
				fmt.Fprintln(os.Stderr, "HARNESS-ERROR: C16: no execution finished for 120 s (a thread blocks outside the scheduler)")
				os.Exit(2)
			}
		}
	}()
	perBound := 40 * time.Second
	if thorough {
		perBound = 6 * time.Minute
		maxBound = 3
	}
	exhaustive := true
	for _, sc := range c16Scenarios() {
		st.scenarios++
		st.boundDone[sc.name] = -1
		for b := 0; b <= maxBound; b++ {
			if b > sc.maxBound(thorough) {
				break
			}
			end := time.Now().Add(perBound)
			vsched.Stop = func() bool { return time.Now().After(end) }
			truncated := c16Explore(r, st, sc, b)
			vsched.Stop = nil
			if truncated {
				// the time budget ended this bound: everything below it was completed
				exhaustive = false
				break
			}
			st.boundDone[sc.name] = b
		}
	}
	total := 0
	outs := map[string]any{}
	for sc, m := range st.outcomes {
		total += len(m)
		outs[sc] = len(m)
	}
	r.Coverage["states"] = st.executions
	r.Coverage["transitions"] = st.executions * max(st.maxPoints, 1)
	r.Coverage["traces_validated_against_impl"] = st.executions
	r.Coverage["executions"] = st.executions
	r.Coverage["max_scheduling_points_per_execution"] = st.maxPoints
	r.Coverage["preemption_bound_completed_per_scenario"] = st.boundDone
	r.Coverage["distinct_outcomes_per_scenario"] = outs
	r.Coverage["distinct_outcomes"] = total
	r.Coverage["exhaustive"] = exhaustive
	r.Assumptions = []string{
		"scheduling points: sync/channel/select/go operations of the rewritten files (event/channel_bus.go, internal/datastore/{txn,concurrent_txn}.go, internal/db/{db,merge,messages,subscriptions}.go, net/*.go) and NewTxn/Commit/Discard of the store device; reads and writes inside a transaction touch only its private buffer and an immutable snapshot",
		"every execution runs the real code (an execution is its own trace); unsynchronised plain-memory accesses between points are outside a cooperative scheduler and are only covered where the harness owns the object (S1 monitor)",
		"internal time budget: when it ends the run reports exhaustive=false and the bound completed per scenario, never a verdict",
	}
	return r.Finish()
}

type c16Scenario struct {
	name string
	// setup runs before every execution outside the scheduler (database construction; the
	// infrastructure goroutines it starts are free-running and only touch channels)
	setup func()
	// body runs inside the scheduler; it spawns the driver threads and returns the observation
	// through obs (called after quiescence by check).
	body  func(obs *c16Obs)
	check func(obs *c16Obs) (outcome string, violation string)
	quickMax, thoroughMax int
}

func (s c16Scenario) maxBound(thorough bool) int {
	if thorough {
		return s.thoroughMax
	}
	return s.quickMax
}

type c16Obs struct {
	log    []string
	vals   map[string]any
	errs   map[string]error
	finish func()
}

func (o *c16Obs) add(s string) { o.log = append(o.log, s) }

func c16Explore(r *rep.Run, st *c16Stats, sc c16Scenario, bound int) (truncated bool) {
	if st.outcomes[sc.name] == nil {
		st.outcomes[sc.name] = map[string]int{}
	}
	var obs *c16Obs
	vsched.Setup = sc.setup
	defer func() { vsched.Setup = nil }()
	stats := vsched.Explore(bound, func() {
		obs = &c16Obs{vals: map[string]any{}, errs: map[string]error{}}
		sc.body(obs)
	}, func(res vsched.Result, choices []int) {
		atomic.AddInt64(&c16Progress, 1)
		if obs.finish != nil {
			obs.finish()
		}
		info := map[string]any{"scenario": sc.name, "bound": bound, "schedule": choices}
		if res.Panic != nil {
			if strings.HasPrefix(fmt.Sprint(res.Panic), "vsched:") {
				// the scheduler itself gave up (a schedule prefix did not replay): nondeterminism the
				// harness does not own - never a verdict about the repository
				rep.HarnessError("C16 %s schedule %v: %v", sc.name, choices, res.Panic)
			}
			r.Violation(rep.Violation{Fingerprint: "C16:panic:" + sc.name, Summary: fmt.Sprintf("%s schedule %v: panic %v", sc.name, choices, res.Panic), Replay: info})
			return
		}
		if res.Deadlock {
			r.Violation(rep.Violation{Fingerprint: "C16:deadlock:" + sc.name, Summary: fmt.Sprintf("%s schedule %v: a driver thread never finishes (no enabled thread)", sc.name, choices), Replay: info})
			return
		}
		out, viol := sc.check(obs)
		st.outcomes[sc.name][out]++
		if viol != "" {
			r.Violation(rep.Violation{Fingerprint: "C16:" + strings.SplitN(viol, ":", 2)[0] + ":" + sc.name, Summary: fmt.Sprintf("%s schedule %v (bound %d): %s", sc.name, choices, bound, viol), Replay: info})
		}
		if st.outcomes[sc.name][out] == 1 {
			r.Sample(map[string]any{"scenario": sc.name, "bound": bound, "schedule": fmt.Sprint(choices), "outcome": out})
		}
	})
	st.executions += int64(stats.Executions)
	if int64(stats.MaxPoints) > st.maxPoints {
		st.maxPoints = int64(stats.MaxPoints)
	}
	return stats.Truncated
}

func c16Scenarios() []c16Scenario {
	ctx := context.Background()
	var out []c16Scenario

	// ---- S1: shared concurrent transaction ----
	s1 := func(nthreads int) c16Scenario {
		return c16Scenario{name: fmt.Sprintf("S1 concurrent txn shared by %d threads", nthreads), quickMax: 2, thoroughMax: 3,
			body: func(obs *c16Obs) {
				var inside, overlaps int32
				ms := &monStore{Store: vkv.NewStore(), inside: &inside, overlaps: &overlaps}
				txn := datastore.NewConcurrentTxnFrom(ctx, ms, 1, false)
				done := make([]bool, nthreads)
				for i := 0; i < nthreads; i++ {
					i := i
					vsched.Spawn(func() {
						k := []byte(fmt.Sprintf("/k%d", i))
						if err := txn.Datastore().Set(ctx, k, []byte{byte(i)}); err != nil {
							obs.errs[fmt.Sprintf("set%d", i)] = err
						}
						if _, err := txn.Headstore().Has(ctx, []byte("/shared")); err != nil {
							obs.errs[fmt.Sprintf("has%d", i)] = err
						}
						done[i] = true
					})
				}
				obs.finish = func() {
					all := true
					for _, d := range done {
						all = all && d
					}
					obs.vals["all"] = all
					obs.vals["overlaps"] = int(atomic.LoadInt32(&overlaps))
					if all {
						obs.errs["commit"] = txn.Commit(ctx)
						n := 0
						ms.Store.Snapshot().Each(func(k string, v []byte) { n++ })
						obs.vals["keys"] = n
					}
				}
			},
			check: func(obs *c16Obs) (string, string) {
				out := fmt.Sprintf("overlaps=%v keys=%v", obs.vals["overlaps"], obs.vals["keys"])
				if obs.vals["overlaps"].(int) > 0 {
					return out, fmt.Sprintf("inner-transaction-entered-concurrently: %d overlapping entries into the inner store transaction (its mutex wrapper is bypassed)", obs.vals["overlaps"])
				}
				for k, e := range obs.errs {
					if e != nil {
						return out, fmt.Sprintf("call-failed: %s: %v", k, e)
					}
				}
				if obs.vals["all"] == true && obs.vals["keys"] != nthreads {
					return out, fmt.Sprintf("lost-write: %v keys committed, %d acknowledged writes", obs.vals["keys"], nthreads)
				}
				return out, ""
			}}
	}
	out = append(out, s1(2), s1(3))

	// ---- S2: merge queue ----
	out = append(out, c16Scenario{name: "S2 merge queue, 3 threads, 2 keys", quickMax: 2, thoroughMax: 3,
		body: func(obs *c16Obs) {
			q := db.NewVerifMergeQueue()
			holders := map[string]int{}
			maxHold := 0
			order := []string{}
			for i, key := range []string{"a", "a", "b"} {
				i, key := i, key
				vsched.Spawn(func() {
					q.Add(key)
					holders[key]++
					if holders[key] > maxHold {
						maxHold = holders[key]
					}
					order = append(order, fmt.Sprintf("%d:%s", i, key))
					vsched.Yield()
					holders[key]--
					q.Done(key)
				})
			}
			// a fourth thread re-enters the contended key
			vsched.Spawn(func() {
				q.Add("a")
				holders["a"]++
				if holders["a"] > maxHold {
					maxHold = holders["a"]
				}
				order = append(order, "3:a")
				holders["a"]--
				q.Done("a")
			})
			obs.finish = func() { obs.vals["max"] = maxHold; obs.vals["order"] = strings.Join(order, " ") }
		},
		check: func(obs *c16Obs) (string, string) {
			out := fmt.Sprint(obs.vals["order"])
			if obs.vals["max"].(int) > 1 {
				return out, fmt.Sprintf("mutual-exclusion: %d threads held the same key at once (%s)", obs.vals["max"], out)
			}
			return out, ""
		}})

	// ---- S3: event bus ----
	out = append(out, c16Scenario{name: "S3 event bus, 2 publishers, 2 subscribers, unsubscribe", quickMax: 1, thoroughMax: 2,
		body: func(obs *c16Obs) {
			bus := event.NewChannelBus(2, 8)
			recv := [2][]string{}
			var subs [2]event.Subscription
			for i := 0; i < 2; i++ {
				s, err := bus.Subscribe("x")
				if err != nil {
					obs.errs["subscribe"] = err
					return
				}
				subs[i] = s
				i := i
				if i == 1 {
					continue // the second subscriber has no reader: its buffer (8) holds everything
				}
				vsched.Go(func() {
					for m := range vsched.RangeChan(s.Message()) {
						recv[i] = append(recv[i], fmt.Sprint(m.Data))
					}
				})
			}
			for p := 0; p < 2; p++ {
				p := p
				vsched.Spawn(func() {
					for k := 0; k < 2-p; k++ {
						bus.Publish(event.NewMessage("x", fmt.Sprintf("p%d-%d", p, k)))
					}
				})
			}
			vsched.Spawn(func() {
				bus.Unsubscribe(subs[1])
			})
			obs.finish = func() {
				obs.vals["r0"] = strings.Join(recv[0], " ")
				obs.vals["r1"] = strings.Join(recv[1], " ")
			}
		},
		check: func(obs *c16Obs) (string, string) {
			out := fmt.Sprintf("sub0=[%v] sub1=[%v]", obs.vals["r0"], obs.vals["r1"])
			if e := obs.errs["subscribe"]; e != nil {
				return out, "call-failed: subscribe: " + e.Error()
			}
			fifo := func(seq string) bool {
				last := map[string]int{"p0": -1, "p1": -1}
				for _, m := range strings.Fields(seq) {
					var p string
					var k int
					fmt.Sscanf(strings.Replace(m, "-", " ", 1), "%s %d", &p, &k)
					if k <= last[p] {
						return false
					}
					last[p] = k
				}
				return true
			}
			if !fifo(fmt.Sprint(obs.vals["r0"])) || !fifo(fmt.Sprint(obs.vals["r1"])) {
				return out, "per-publisher-order: a subscriber saw two messages of one publisher out of order: " + out
			}
			if len(strings.Fields(fmt.Sprint(obs.vals["r0"]))) != 3 {
				return out, "lost-message: the subscriber that stayed subscribed did not receive all 3 messages: " + out
			}
			return out, ""
		}})

	// ---- S3b: publish vs Close vs Unsubscribe: no panic, no goroutine stuck ----
	out = append(out, c16Scenario{name: "S3b event bus: publish || close || unsubscribe", quickMax: 2, thoroughMax: 3,
		body: func(obs *c16Obs) {
			bus := event.NewChannelBus(1, 1)
			s, err := bus.Subscribe("x")
			if err != nil {
				obs.errs["subscribe"] = err
				return
			}
			got := 0
			vsched.Go(func() {
				for range vsched.RangeChan(s.Message()) {
					got++
				}
			})
			vsched.Spawn(func() {
				bus.Publish(event.NewMessage("x", 1))
				bus.Publish(event.NewMessage("x", 2))
			})
			vsched.Spawn(func() { bus.Unsubscribe(s) })
			vsched.Spawn(func() { bus.Close() })
			obs.finish = func() { obs.vals["got"] = got }
		},
		check: func(obs *c16Obs) (string, string) {
			if e := obs.errs["subscribe"]; e != nil {
				return "setup", "call-failed: subscribe: " + e.Error()
			}
			return fmt.Sprintf("delivered=%v", obs.vals["got"]), ""
		}})

	// ---- S4: API calls on one node ----
	type apiOp struct {
		name string
		req  string // %s = docID
		inc  int64
		set  int64
	}
	apiPairs := [][2]apiOp{
		{{"inc+1", `mutation { update_U(docID: "%s", input: {c: 1}) { _docID } }`, 1, 0}, {"inc+10", `mutation { update_U(docID: "%s", input: {c: 10}) { _docID } }`, 10, 0}},
		{{"set a=1", `mutation { update_U(docID: "%s", input: {a: 1}) { _docID } }`, 0, 1}, {"set a=2", `mutation { update_U(docID: "%s", input: {a: 2}) { _docID } }`, 0, 2}},
		{{"inc+1", `mutation { update_U(docID: "%s", input: {c: 1}) { _docID } }`, 1, 0}, {"delete", `mutation { delete_U(docID: "%s") { _docID } }`, 0, 0}},
		{{"create same", `mutation { create_U(input: {name: "same", a: 5, c: 0}) { _docID } }`, 0, 0}, {"create same", `mutation { create_U(input: {name: "same", a: 5, c: 0}) { _docID } }`, 0, 0}},
	}
	for _, pair := range apiPairs {
		pair := pair
		var s4db *db.DB
		var s4store *vkv.Store
		var s4id string
		var s4err error
		out = append(out, c16Scenario{name: "S4 API calls: " + pair[0].name + " || " + pair[1].name, quickMax: 2, thoroughMax: 2,
			setup: func() {
				s4store = vkv.NewStore()
				s4db, s4err = world.NewDB(ctx, s4store)
				if s4err != nil {
					return
				}
				if _, s4err = s4db.AddSchema(ctx, `type U { name: String  a: Int  c: Int @crdt(type: pncounter) }`); s4err != nil {
					return
				}
				world.SeedRand("c16-s4")
				data, errs := world.Exec(ctx, s4db, `mutation { create_U(input: {name: "doc", a: 0, c: 100}) { _docID } }`)
				world.UnseedRand()
				if len(errs) > 0 {
					s4err = fmt.Errorf("%v", errs)
					return
				}
				s4id, _ = docIDOf(data, "create_U")
			},
			body: func(obs *c16Obs) {
				if s4err != nil {
					obs.errs["setup"] = s4err
					return
				}
				store, d, id := s4store, s4db, s4id
				store.SetHook(func(o *vkv.Op) error {
					switch o.Kind {
					case "newtxn", "commit", "discard":
						vsched.Yield()
					}
					return nil
				})
				res := make([]string, 2)
				for i := 0; i < 2; i++ {
					i := i
					vsched.Spawn(func() {
						q := pair[i].req
						if strings.Contains(q, "%s") {
							q = fmt.Sprintf(q, id)
						}
						data, errs := world.Exec(ctx, d, q)
						if len(errs) == 0 {
							// acknowledged only if the response names the document it changed
							res[i] = "no document matched"
							if m, ok := data.(map[string]any); ok {
								for k := range m {
									if len(world.Rows(data, k)) > 0 {
										res[i] = "ok"
									}
								}
							}
						} else {
							res[i] = "error: " + errs[0]
						}
					})
				}
				obs.finish = func() {
					store.SetHook(nil)
					obs.vals["res"] = res
					dd, _ := world.Exec(ctx, d, `query { U(showDeleted: true) { name _deleted a c } }`)
					rows := world.Rows(dd, "U")
					sort.Slice(rows, func(i, j int) bool { return world.Canon(rows[i]) < world.Canon(rows[j]) })
					obs.vals["rows"] = rows
					closed := make(chan struct{})
					go func() { d.Close(); close(closed) }()
					select {
					case <-closed:
					case <-time.After(20 * time.Second):
					}
				}
			},
			check: func(obs *c16Obs) (string, string) {
				for k, e := range obs.errs {
					if e != nil {
						return "setup failed", "call-failed: " + k + ": " + e.Error()
					}
				}
				res := obs.vals["res"].([]string)
				rows := obs.vals["rows"].([]map[string]any)
				out := fmt.Sprintf("%v -> %s", res, world.Canon(rows))
				for _, rs := range res {
					if rs != "ok" && rs != "no document matched" && !strings.Contains(rs, "conflict") && !strings.Contains(rs, "already exists") && !strings.Contains(rs, "not found") && !strings.Contains(rs, "deleted") {
						return out, "unexpected-error: a call failed with something other than a conflict: " + rs
					}
				}
				if strings.HasPrefix(pair[0].name, "create") {
					nok := 0
					for _, rs := range res {
						if rs == "ok" {
							nok++
						}
					}
					same := 0
					for _, row := range rows {
						if row["name"] == "same" {
							same++
						}
					}
					if nok != 1 || same != 1 {
						return out, fmt.Sprintf("create-same-document: %d calls reported success, %d such documents exist", nok, same)
					}
					return out, ""
				}
				var doc map[string]any
				for _, row := range rows {
					if row["name"] == "doc" {
						doc = row
					}
				}
				if doc == nil {
					return out, "document-lost: the document is not returned even with showDeleted"
				}
				wantC := int64(100)
				var okSets []int64
				deleted := false
				for i, rs := range res {
					if rs != "ok" {
						continue
					}
					wantC += pair[i].inc
					if pair[i].set != 0 {
						okSets = append(okSets, pair[i].set)
					}
					if pair[i].name == "delete" {
						deleted = true
					}
				}
				if c, _ := doc["c"].(int64); c != wantC {
					return out, fmt.Sprintf("counter: counter is %v, initial 100 + successful increments = %d", doc["c"], wantC)
				}
				if len(okSets) > 0 {
					a, _ := doc["a"].(int64)
					found := false
					for _, v := range okSets {
						found = found || v == a
					}
					if !found {
						return out, fmt.Sprintf("register: a = %v, acknowledged writes %v", doc["a"], okSets)
					}
				} else if a, _ := doc["a"].(int64); a != 0 {
					return out, fmt.Sprintf("effect-of-failed-call: a = %v although no write of a reported success", doc["a"])
				}
				if del, _ := doc["_deleted"].(bool); del != deleted {
					return out, fmt.Sprintf("delete: _deleted = %v, acknowledged delete = %v", del, deleted)
				}
				return out, ""
			}})
	}
	return out
}
