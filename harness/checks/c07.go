package checks

import (
	"context"
	"time"
	"fmt"
	"runtime"
	"sort"
	"strings"
	"sync"
	"sync/atomic"

	"github.com/sourcenetwork/defradb/client"
	"github.com/sourcenetwork/defradb/internal/db"
	"github.com/sourcenetwork/defradb/internal/verifh/qx"
	"github.com/sourcenetwork/defradb/internal/verifh/rep"
	"github.com/sourcenetwork/defradb/internal/verifh/vkv"
	"github.com/sourcenetwork/defradb/internal/verifh/world"
)

func init() { Register("C07", runC07) }

type ixConfig struct {
	// UniqueOnData: the unique index is on value fields, so data sets and writes that duplicate a
	// tuple are rejected by the indexed twin only; such cases are skipped here (the exact rejection
	// rule is the subject of the unique-index search), all others are compared as usual.
	UniqueOnData bool
	Name         string
	SDL   string                      // schema with the indexes declared (created before the data)
	After []client.IndexCreateRequest // indexes created through the API after the data was loaded
}

func c07Configs() []ixConfig {
	f := func(n string, desc bool) client.IndexedFieldDescription {
		return client.IndexedFieldDescription{Name: n, Descending: desc}
	}
	return []ixConfig{
		{Name: "a asc", SDL: `type T { u: Int  a: Int @index  b: Int  s: String }`},
		{Name: "a desc", SDL: `type T { u: Int  a: Int @index(direction: DESC)  b: Int  s: String }`},
		{Name: "s asc", SDL: `type T { u: Int  a: Int  b: Int  s: String @index }`},
		{Name: "s desc + b asc", SDL: `type T { u: Int  a: Int  b: Int @index  s: String @index(direction: DESC) }`},
		{Name: "composite a asc, b desc", SDL: `type T @index(includes: [{field: "a"}, {field: "b", direction: DESC}]) { u: Int  a: Int  b: Int  s: String }`},
		{Name: "composite b desc, a asc", SDL: `type T @index(includes: [{field: "b", direction: DESC}, {field: "a", direction: ASC}]) { u: Int  a: Int  b: Int  s: String }`},
		{Name: "composite s, a", SDL: `type T @index(includes: [{field: "s"}, {field: "a"}]) { u: Int  a: Int  b: Int  s: String }`},
		{Name: "unique u + a asc", SDL: `type T { u: Int @index(unique: true)  a: Int @index  b: Int  s: String }`},
		{Name: "unique composite a, b", SDL: `type T @index(unique: true, includes: [{field: "a"}, {field: "b"}]) { u: Int  a: Int  b: Int  s: String }`, UniqueOnData: true},
		{Name: "a asc (created after data)", SDL: c08SDL, After: []client.IndexCreateRequest{{Fields: []client.IndexedFieldDescription{f("a", false)}}}},
		{Name: "composite b desc, s (created after data)", SDL: c08SDL, After: []client.IndexCreateRequest{{Fields: []client.IndexedFieldDescription{f("b", true), f("s", false)}}}},
	}
}

// twin is a pair of databases with identical history, one without secondary indexes.
type twin struct {
	ctx          context.Context
	plain, ix    *qnode
	cfg          ixConfig
	ixWithSchema vkv.Snap
}

func newTwin(cfg ixConfig) (*twin, error) {
	p, err := newQNode(c08SDL)
	if err != nil {
		return nil, err
	}
	x, err := newQNode(cfg.SDL)
	if err != nil {
		return nil, err
	}
	return &twin{ctx: context.Background(), plain: p, ix: x, cfg: cfg}, nil
}

func (t *twin) close() { t.plain.db.Close(); t.ix.db.Close() }

// load puts docs into both; indexes declared "after" are created on a fresh DB object each time
// (index lists are in-memory state).
func (t *twin) load(docs []qx.Doc) error {
	if err := t.plain.load(docs); err != nil {
		return err
	}
	if len(t.cfg.After) == 0 {
		return t.ix.load(docs)
	}
	t.ix.db.Close()
	t.ix.st.Restore(t.ix.base)
	d, err := world.NewDB(t.ctx, t.ix.st)
	if err != nil {
		return err
	}
	t.ix.db = d
	if err := t.ix.loadNoRestore(docs); err != nil {
		return err
	}
	col, err := d.GetCollectionByName(t.ctx, "T")
	if err != nil {
		return err
	}
	for _, rq := range t.cfg.After {
		if _, err := col.CreateIndex(t.ctx, rq); err != nil {
			return fmt.Errorf("CreateIndex: %w", err)
		}
	}
	return nil
}

func (n *qnode) loadNoRestore(docs []qx.Doc) error {
	if len(docs) == 0 {
		return nil
	}
	var ins []string
	for _, d := range docs {
		ins = append(ins, d.Input())
	}
	_, errs := world.Exec(n.ctx, n.db, fmt.Sprintf(`mutation { create_T(input: [%s]) { _docID } }`, strings.Join(ins, ", ")))
	if len(errs) > 0 {
		return fmt.Errorf("%v", errs)
	}
	return nil
}

// indexEntries returns the raw secondary-index entries of a store with the index id stripped.
func indexEntries(sn vkv.Snap) []string {
	var out []string
	sn.Each(func(k string, v []byte) {
		if !strings.HasPrefix(k, "/db/data/") {
			return
		}
		rest := k[len("/db/data/"):]
		i := strings.IndexByte(rest, '/')
		if i < 0 {
			return
		}
		rest = rest[i+1:]
		if strings.HasPrefix(rest, "pk/") || strings.HasPrefix(rest, "v/") || strings.HasPrefix(rest, "p/") || strings.HasPrefix(rest, "d/") || rest == "v" || rest == "p" || rest == "d" {
			return
		}
		j := strings.IndexByte(rest, '/')
		if j < 0 {
			return
		}
		out = append(out, fmt.Sprintf("%x=%x", rest[j:], v))
	})
	sort.Strings(out)
	return out
}

type c07step struct {
	label string
	req   func(u int) string // request for document u (docID filled by caller)
}

func runC07(args []string) int {
	t0 := time.Now()
	r := rep.New("C07", "exploration")
	tier := rep.Tier()
	k := 3
	if tier == "thorough" {
		k = 3
	}
	var sets [][]qx.Doc
	sets = append(sets, qx.DocSets(qx.Shapes(false), k-1)...)
	sets = append(sets, qx.DocSets(qx.Shapes(true), k-1)...)
	if tier == "thorough" {
		sets = append(sets, qx.DocSets(qx.Shapes(true), k)...)
	}
	filters := qx.Filters(tier == "thorough")
	// degenerate patterns (appended, so that the positions of the other terms stay put)
	for _, op := range []string{"_like", "_nlike"} {
		for _, v := range []string{"", "%"} {
			filters = append(filters, qx.Cond{Field: "s", Op: op, Str: v})
		}
	}
	orders := qx.Orders()
	configs := c07Configs()
	var mu sync.Mutex
	evals, rebuilds, histories := 0, 0, 0
	outcomes := map[string]struct{}{}
	type job struct {
		cfg  ixConfig
		docs []qx.Doc
		n    int
	}
	// document sets outermost, so that a budgeted (thorough) run covers every index configuration for a
	// prefix of the document sets - which starts with the sets of the quick tier
	jobs := make(chan job, len(configs)*len(sets))
	for i, s := range sets {
		for _, c := range configs {
			jobs <- job{c, s, i}
		}
	}
	close(jobs)
	totalJobs := len(configs) * len(sets)
	var doneJobs int64
	deadline := time.Now().Add(100 * time.Hour)
	if tier == "thorough" {
		deadline = time.Now().Add(50 * time.Minute) // internal budget: ends the enumeration with exhaustive=false, never with a verdict
	}
	var wg sync.WaitGroup
	for w := 0; w < runtime.NumCPU(); w++ {
		wg.Add(1)
		go func() {
			defer wg.Done()
			twins := map[string]*twin{}
			defer func() {
				for _, t := range twins {
					t.close()
				}
			}()
			for j := range jobs {
				if time.Now().After(deadline) {
					continue
				}
				atomic.AddInt64(&doneJobs, 1)
				t := twins[j.cfg.Name]
				if t == nil {
					var err error
					if t, err = newTwin(j.cfg); err != nil {
						rep.HarnessError("%s: %v", j.cfg.Name, err)
					}
					twins[j.cfg.Name] = t
				}
				e, rb, h, out := c07Case(r, t, j.docs, filters, orders, j.n%41 == 0)
				mu.Lock()
				evals += e
				rebuilds += rb
				histories += h
				for o := range out {
					outcomes[o] = struct{}{}
				}
				mu.Unlock()
			}
		}()
	}
	wg.Wait()
	tMain := time.Since(t0).Seconds()
	ue, uo := c07Unique(r)
	tUnique := time.Since(t0).Seconds()
	ke, ko := c07Kinds(r)
	tKinds := time.Since(t0).Seconds()
	ae, ao := c07Arrays(r)
	r.Coverage["wall_s_parts"] = map[string]float64{"twins": tMain, "unique": tUnique - tMain, "kinds": tKinds - tUnique, "arrays_json": time.Since(t0).Seconds() - tKinds}
	r.Coverage["composite_matcher_requests_per_kind_compared"] = ke
	r.Coverage["evaluations"] = evals + ue + ke + ae
	r.Coverage["distinct_nontrivial"] = len(outcomes) + uo + ko + ao
	r.Coverage["rule"] = "one evaluation = one request answered by the indexed twin and by the plain twin after the same history (or one write judged against the uniqueness reference); index sets x document sets x mutation histories (<=2 steps) x every filter/order/limit term of the grammar; distinct_nontrivial = distinct (index config, request, non-empty result)"
	r.Coverage["index_configs"] = len(configs)
	r.Coverage["document_sets"] = len(sets)
	r.Coverage["histories"] = histories
	r.Coverage["index_rebuild_comparisons"] = rebuilds
	r.Coverage["unique_index_writes_judged"] = ue
	r.Coverage["twin_jobs_completed"] = doneJobs
	r.Coverage["twin_jobs_total"] = totalJobs
	r.Coverage["exhaustive"] = int(doneJobs) == totalJobs
	if int(doneJobs) != totalJobs {
		r.Coverage["budget_note"] = fmt.Sprintf("the 50-minute budget of the twin part ended after %d of %d (document set, index configuration) jobs; document sets are taken in order, all index configurations per set; the other parts ran in full", doneJobs, totalJobs)
	}
	r.Assumptions = []string{"the plain twin (scan path) is the reference; its own semantics are checked by C08", "index content invariant is differential: entries after the history = entries of the same index rebuilt from the current documents"}
	return r.Finish()
}

func c07Case(r *rep.Run, t *twin, docs []qx.Doc, filters []qx.Filter, orders [][]qx.OrderKey, sample bool) (evals, rebuilds, histories int, outcomes map[string]struct{}) {
	outcomes = map[string]struct{}{}
	if err := t.load(docs); err != nil {
		if t.cfg.UniqueOnData && strings.Contains(err.Error(), "unique") {
			return
		}
		rep.HarnessError("load %v into %s: %v", docs, t.cfg.Name, err)
	}
	desc := func() string {
		var ps []string
		for _, d := range docs {
			ps = append(ps, d.String())
		}
		return strings.Join(ps, " ")
	}
	var hist []string
	viol := func(class, req, detail string) {
		r.Violation(rep.Violation{Fingerprint: "C07:" + class + ":" + t.cfg.Name, Summary: fmt.Sprintf("index %s; docs %s; history %v\n request %s\n %s", t.cfg.Name, desc(), hist, req, detail),
			Replay: map[string]any{"engine": "c07", "index": t.cfg.Name, "docs": desc(), "history": hist, "request": req}})
	}
	both := func(req string) (a, b []map[string]any, ok bool) {
		da, ea, ha, pa := world.ExecGuard(t.ctx, t.plain.db, req)
		dbb, eb, hb, pb := world.ExecGuard(t.ctx, t.ix.db, req)
		evals++
		if ha || hb || pa != nil || pb != nil {
			viol("panic-or-hang", req, fmt.Sprintf("plain hung=%v panic=%v; indexed hung=%v panic=%v", ha, pa, hb, pb))
			return nil, nil, false
		}
		if strings.Join(ea, ";") != strings.Join(eb, ";") {
			viol("error-differs", req, fmt.Sprintf("plain errors %v, indexed errors %v", ea, eb))
			return nil, nil, false
		}
		if len(ea) > 0 {
			return nil, nil, false
		}
		return world.Rows(da, "T"), world.Rows(dbb, "T"), true
	}
	compareAll := func(full bool) {
		for i, f := range filters {
			if !full && i%6 != 0 {
				continue
			}
			if !mentions(f, t.cfg) {
				continue
			}
			req := fmt.Sprintf(`query { T(filter: %s) { u a b s } }`, f.GQL())
			a, b, ok := both(req)
			if !ok {
				continue
			}
			if world.CanonRowsUnordered(a) != world.CanonRowsUnordered(b) {
				viol("filter:"+filterShape(f), req, fmt.Sprintf("plain %s, indexed %s", world.CanonRowsUnordered(a), world.CanonRowsUnordered(b)))
			} else if len(a) > 0 {
				outcomes[t.cfg.Name+req+world.CanonRowsUnordered(a)] = struct{}{}
			}
		}
		for oi, keys := range orders {
			if !full && oi%3 != 0 {
				continue
			}
			// list conditions with their literals in descending order: an index-backed plan visits the
			// listed values one after the other, the requested order must still be applied
			inLists := []qx.Filter{qx.Cond{Field: "a", Op: "_in", Ints: []int64{2, 1, 0}}, qx.Cond{Field: "s", Op: "_in", Strs: []string{"y", "x"}},
				qx.Cond{Field: "b", Op: "_in", Ints: []int64{2, 0}}}
			for fi, f := range append(append([]qx.Filter{nil}, filters[3], filters[14], filters[40], filters[75]), inLists...) {
				farg := ""
				if f != nil {
					if !full && fi%2 == 0 && fi <= 4 {
						continue
					}
					farg = "filter: " + f.GQL() + ", "
				}
				for _, lo := range [][2]int{{0, 0}, {1, 0}, {2, 1}} {
					if f != nil && lo[0] == 1 {
						continue
					}
					lim := ""
					if lo[0] > 0 {
						lim = fmt.Sprintf(", limit: %d", lo[0])
					}
					if lo[1] > 0 {
						lim += fmt.Sprintf(", offset: %d", lo[1])
					}
					req := fmt.Sprintf(`query { T(%sorder: %s%s) { u a b s } }`, farg, qx.OrderGQL(keys), lim)
					a, b, ok := both(req)
					if !ok {
						continue
					}
					ka, kb := keySeq(a, keys), keySeq(b, keys)
					if ka != kb && len(keys) > 1 && lo[0] == 0 && lo[1] == 0 && keySeq(a, keys[:1]) == keySeq(b, keys[:1]) &&
						world.CanonRowsUnordered(a) == world.CanonRowsUnordered(b) {
						// same documents, same sequence of the first key, different order inside its ties
						r.Violation(rep.Violation{Fingerprint: "C07:order-secondary-key-tie-order", Summary: fmt.Sprintf("index %s; docs %s; history %v; request %s: sort keys plain %s, indexed %s", t.cfg.Name, desc(), hist, req, ka, kb),
							Replay: map[string]any{"engine": "c07", "index": t.cfg.Name, "docs": desc(), "history": hist, "request": req}})
					} else if ka != kb && len(keys) > 1 && (lo[0] > 0 || lo[1] > 0) && keySeq(a, keys[:1]) == keySeq(b, keys[:1]) {
						r.Violation(rep.Violation{Fingerprint: "C07:order-secondary-key-tie-order", Summary: fmt.Sprintf("index %s; docs %s; history %v; request %s: sort keys plain %s, indexed %s", t.cfg.Name, desc(), hist, req, ka, kb),
							Replay: map[string]any{"engine": "c07", "index": t.cfg.Name, "docs": desc(), "history": hist, "request": req}})
					} else if ka != kb {
						viol("order-keys", req, fmt.Sprintf("sort keys: plain %s, indexed %s", ka, kb))
					} else if lo[0] == 0 && lo[1] == 0 && world.CanonRowsUnordered(a) != world.CanonRowsUnordered(b) {
						viol("order-result-set", req, fmt.Sprintf("plain %s, indexed %s", world.CanonRowsUnordered(a), world.CanonRowsUnordered(b)))
					} else if len(a) > 0 {
						outcomes[t.cfg.Name+req+ka] = struct{}{}
					}
				}
			}
		}
	}
	rebuild := func() {
		// the index content after the history equals the same index rebuilt from the current documents
		rebuilds++
		sn := t.ix.st.Snapshot()
		have := indexEntries(sn)
		st := vkv.NewStoreFrom(sn)
		d, err := world.NewDB(t.ctx, st)
		if err != nil {
			rep.HarnessError("%v", err)
		}
		defer d.Close()
		col, err := d.GetCollectionByName(t.ctx, "T")
		if err != nil {
			rep.HarnessError("%v", err)
		}
		ixs, err := col.GetIndexes(t.ctx)
		if err != nil {
			rep.HarnessError("%v", err)
		}
		// GetIndexes hands out the collection's own slice, which DropIndex edits in place
		ixs = append([]client.IndexDescription{}, ixs...)
		for _, ix := range ixs {
			col, _ = d.GetCollectionByName(t.ctx, "T")
			if err := col.DropIndex(t.ctx, ix.Name); err != nil {
				rep.HarnessError("DropIndex: %v", err)
			}
		}
		if left := indexEntries(st.Snapshot()); len(left) != 0 {
			viol("drop-leaves-entries", "DropIndex", fmt.Sprintf("%d index entries remain after dropping all indexes", len(left)))
		}
		for _, ix := range ixs {
			col, _ = d.GetCollectionByName(t.ctx, "T")
			if _, err := col.CreateIndex(t.ctx, client.IndexCreateRequest{Name: ix.Name, Fields: ix.Fields, Unique: ix.Unique}); err != nil {
				viol("rebuild-fails", "CreateIndex", err.Error())
				return
			}
		}
		want := indexEntries(st.Snapshot())
		if strings.Join(have, "\n") != strings.Join(want, "\n") {
			viol("index-content", "raw index entries", fmt.Sprintf("after the history: %d entries, rebuilt from the current documents: %d entries\n have %v\n want %v", len(have), len(want), have, want))
		}
	}
	compareAll(true)
	rebuild()
	if len(docs) == 0 || (rep.Tier() != "thorough" && len(docs) > 2 && docs[len(docs)-1].U%2 == 0 && !docs[0].HasNull()) {
		return
	}
	// mutation histories of <= 2 steps, applied to both twins
	ids := map[int]string{}
	{
		data, _ := world.Exec(t.ctx, t.plain.db, `query { T { _docID u } }`)
		for _, row := range world.Rows(data, "T") {
			ids[int(toInt(row["u"]))] = row["_docID"].(string)
		}
	}
	steps := []c07step{
		{"u0.a=null", func(int) string { return fmt.Sprintf(`mutation { update_T(docID: %q, input: {a: null}) { _docID } }`, ids[0]) }},
		{"u0.a=1", func(int) string { return fmt.Sprintf(`mutation { update_T(docID: %q, input: {a: 1}) { _docID } }`, ids[0]) }},
		{"u0.b=null,s=yx", func(int) string {
			return fmt.Sprintf(`mutation { update_T(docID: %q, input: {b: null, s: "yx"}) { _docID } }`, ids[0])
		}},
		{"delete u0", func(int) string { return fmt.Sprintf(`mutation { delete_T(docID: %q) { _docID } }`, ids[0]) }},
		{"all.a=2", func(int) string { return `mutation { update_T(input: {a: 2}) { _docID } }` }},
		{"create u9", func(int) string { return `mutation { create_T(input: {u: 9, a: 1, b: null, s: "x"}) { _docID } }` }},
	}
	basePlain, baseIx := t.plain.st.Snapshot(), t.ix.st.Snapshot()
	apply := func(s c07step) bool {
		req := s.req(0)
		_, ea := world.Exec(t.ctx, t.plain.db, req)
		_, eb := world.Exec(t.ctx, t.ix.db, req)
		if strings.Join(ea, ";") != strings.Join(eb, ";") {
			if t.cfg.UniqueOnData && len(ea) == 0 && strings.Contains(strings.Join(eb, ";"), "unique") {
				return false // rejected by the unique index only: the twins have diverged, skip this history
			}
			viol("write-outcome-differs", req, fmt.Sprintf("plain %v, indexed %v", ea, eb))
			return false
		}
		return len(ea) == 0
	}
	for i, s1 := range steps {
		t.plain.st.Restore(basePlain)
		t.ix.st.Restore(baseIx)
		hist = []string{s1.label}
		if !apply(s1) {
			continue
		}
		histories++
		compareAll(false)
		rebuild()
		p1, x1 := t.plain.st.Snapshot(), t.ix.st.Snapshot()
		for j, s2 := range steps {
			if i == j || (i+j)%2 == 0 || (rep.Tier() != "thorough" && (i*7+j)%3 != 0) {
				continue
			}
			t.plain.st.Restore(p1)
			t.ix.st.Restore(x1)
			hist = []string{s1.label, s2.label}
			if !apply(s2) {
				continue
			}
			histories++
			compareAll(false)
			rebuild()
		}
	}
	hist = nil
	if sample {
		r.Sample(map[string]any{"index": t.cfg.Name, "docs": desc(), "requests_compared": evals, "histories": histories})
	}
	return
}

func keySeq(rows []map[string]any, keys []qx.OrderKey) string {
	var out []string
	for _, r := range rows {
		var ps []string
		for _, k := range keys {
			ps = append(ps, world.Canon(r[k.Field]))
		}
		out = append(out, strings.Join(ps, ","))
	}
	return strings.Join(out, ";")
}

// c07Unique: a unique index rejects exactly the local writes that would leave two live documents
// with the same non-null value.
func c07Unique(r *rep.Run) (evals, distinct int) {
	ctx := context.Background()
	n, err := newQNode(`type T { u: Int  a: Int @index(unique: true)  b: Int  s: String }`)
	if err != nil {
		rep.HarnessError("%v", err)
	}
	defer n.db.Close()
	seen := map[string]struct{}{}
	vals := []string{"1", "2", "null"}
	// state = values of a for up to 3 live documents; ops: create(a=v), update(doc i, a=v), delete(doc i)
	type st struct {
		sn   vkv.Snap
		a    []string // value per document ordinal ("" = deleted)
		path []string
	}
	live := func(s st, v string, except int) bool {
		if v == "null" {
			return false
		}
		for i, x := range s.a {
			if i != except && x == v {
				return true
			}
		}
		return false
	}
	ids := func(d *db.DB) map[int]string {
		out := map[int]string{}
		data, _ := world.Exec(ctx, d, `query { T { _docID u } }`)
		for _, row := range world.Rows(data, "T") {
			out[int(toInt(row["u"]))] = row["_docID"].(string)
		}
		return out
	}
	frontier := []st{{sn: n.base}}
	for depth := 0; depth < 4; depth++ {
		var next []st
		for _, s := range frontier {
			type op struct {
				label, req string
				reject     bool
				after      []string
			}
			n.st.Restore(s.sn)
			idm := ids(n.db)
			var ops []op
			if len(s.a) < 3 {
				for _, v := range vals {
					ops = append(ops, op{fmt.Sprintf("create a=%s", v), fmt.Sprintf(`mutation { create_T(input: {u: %d, a: %s}) { _docID } }`, len(s.a), v), live(s, v, -1), append(append([]string{}, s.a...), v)})
				}
			}
			for i, x := range s.a {
				if x == "" {
					continue
				}
				for _, v := range vals {
					after := append([]string{}, s.a...)
					after[i] = v
					ops = append(ops, op{fmt.Sprintf("update u%d a=%s", i, v), fmt.Sprintf(`mutation { update_T(docID: %q, input: {a: %s}) { _docID } }`, idm[i], v), live(s, v, i), after})
				}
				after := append([]string{}, s.a...)
				after[i] = ""
				ops = append(ops, op{fmt.Sprintf("delete u%d", i), fmt.Sprintf(`mutation { delete_T(docID: %q) { _docID } }`, idm[i]), false, after})
			}
			for _, o := range ops {
				n.st.Restore(s.sn)
				_, errs := world.Exec(ctx, n.db, o.req)
				evals++
				path := append(append([]string{}, s.path...), o.label)
				rejected := len(errs) > 0
				seen[fmt.Sprint(s.a, o.label, rejected)] = struct{}{}
				if rejected != o.reject {
					class := "unique-accepts-duplicate"
					if rejected {
						class = "unique-rejects-valid-write"
					}
					r.Violation(rep.Violation{Fingerprint: "C07:" + class, Summary: fmt.Sprintf("history %v: write rejected=%v (%v), reference says reject=%v; live values %v", path, rejected, errs, o.reject, s.a),
						Replay: map[string]any{"engine": "c07-unique", "history": path}})
					continue
				}
				if !rejected {
					next = append(next, st{n.st.Snapshot(), o.after, path})
				}
			}
		}
		frontier = next
		if rep.Tier() != "thorough" && depth >= 2 {
			break
		}
	}
	return evals, len(seen)
}

// mentions reports whether the filter touches a field that the config indexes (only then can the
// planner pick an index; other filters exercise the same scan path as the plain twin).
func mentions(f qx.Filter, cfg ixConfig) bool {
	for _, fld := range f.Fields() {
		if strings.Contains(cfg.Name, fld+" ") || strings.Contains(cfg.Name, " "+fld) || strings.HasPrefix(cfg.Name, fld) || strings.Contains(cfg.Name, fld+",") {
			return true
		}
	}
	return false
}

// c07Kinds: every value kind at the second position of a composite index (and alone), both
// directions: the index fetcher matches non-leading fields with per-kind value matchers, which have
// their own comparison code per operator.
func c07Kinds(r *rep.Run) (evals int, distinct int) {
	ctx := context.Background()
	kinds := []struct {
		name string
		lits []string // GraphQL literals in value order
	}{
		{"Int", []string{"-3", "0", "7", "8"}},
		{"Float", []string{"-1.5", "0.0", "2.25", "1000000.5"}},
		{"String", []string{`""`, `"a"`, `"ab"`, `"b"`}},
		{"Boolean", []string{"false", "true"}},
		{"DateTime", []string{`"1999-12-31T23:59:59Z"`, `"2000-01-01T00:00:00Z"`, `"2000-01-01T00:00:00.000000001Z"`, `"2024-02-29T12:00:00Z"`}},
	}
	seen := map[string]struct{}{}
	for _, k := range kinds {
		configs := []string{
			fmt.Sprintf(`type T @index(includes: [{field: "g"}, {field: "v"}]) { u: Int  g: String  v: %s }`, k.name),
			fmt.Sprintf(`type T @index(includes: [{field: "g"}, {field: "v", direction: DESC}]) { u: Int  g: String  v: %s }`, k.name),
			fmt.Sprintf(`type T @index(includes: [{field: "g", direction: DESC}, {field: "v"}]) { u: Int  g: String  v: %s }`, k.name),
			fmt.Sprintf(`type T @index(unique: true, includes: [{field: "g"}, {field: "v"}, {field: "u"}]) { u: Int  g: String  v: %s }`, k.name),
		}
		plain, err := newQNode(fmt.Sprintf(`type T { u: Int  g: String  v: %s }`, k.name))
		if err != nil {
			rep.HarnessError("%v", err)
		}
		var ins []string
		u := 0
		for _, g := range []string{`"x"`, `"y"`} {
			for _, l := range append(append([]string{}, k.lits...), "null") {
				ins = append(ins, fmt.Sprintf("{u: %d, g: %s, v: %s}", u, g, l))
				u++
			}
		}
		ins = append(ins, fmt.Sprintf("{u: %d, v: %s}", u, k.lits[0])) // g null
		create := fmt.Sprintf(`mutation { create_T(input: [%s]) { _docID } }`, strings.Join(ins, ", "))
		if _, errs := world.Exec(ctx, plain.db, create); len(errs) > 0 {
			rep.HarnessError("%s: %v", k.name, errs)
		}
		var reqs []string
		ops := []string{"_eq", "_ne", "_gt", "_ge", "_lt", "_le"}
		if k.name == "Boolean" {
			ops = []string{"_eq", "_ne"}
		}
		for _, gc := range []string{`g: {_eq: "x"}, `, `g: {_in: ["x", "y"]}, `, `g: {_ne: "y"}, `, ``} {
			for _, l := range k.lits {
				for _, op := range ops {
					reqs = append(reqs, fmt.Sprintf(`query { T(filter: {%sv: {%s: %s}}) { u v } }`, gc, op, l))
				}
			}
			reqs = append(reqs, fmt.Sprintf(`query { T(filter: {%sv: {_eq: null}}) { u v } }`, gc), fmt.Sprintf(`query { T(filter: {%sv: {_ne: null}}) { u v } }`, gc),
				fmt.Sprintf(`query { T(filter: {%sv: {_in: [%s, %s]}}) { u v } }`, gc, k.lits[0], k.lits[len(k.lits)-1]),
				fmt.Sprintf(`query { T(filter: {%sv: {_nin: [%s, null]}}) { u v } }`, gc, k.lits[0]))
			if gc != "" {
				reqs = append(reqs, fmt.Sprintf(`query { T(filter: {%sv: {_ge: %s}}, order: {v: ASC}) { u v } }`, gc, k.lits[1]),
					fmt.Sprintf(`query { T(filter: {%sv: {_le: %s}}, order: {v: DESC}) { u v } }`, gc, k.lits[len(k.lits)-1]))
			}
		}
		for ci, sdl := range configs {
			ix, err := newQNode(sdl)
			if err != nil {
				rep.HarnessError("%s: %v", sdl, err)
			}
			if _, errs := world.Exec(ctx, ix.db, create); len(errs) > 0 {
				rep.HarnessError("%s indexed: %v", k.name, errs)
			}
			for _, q := range reqs {
				da, ea := world.Exec(ctx, plain.db, q)
				db2, eb := world.Exec(ctx, ix.db, q)
				evals++
				var a, b string
				if strings.Contains(q, "order:") {
					// the sequence of sort keys must agree (documents that tie may come in any order)
					keys := []qx.OrderKey{{Field: "v"}}
					a = keySeq(world.Rows(da, "T"), keys) + " " + fmt.Sprint(sortedInts(us(world.Rows(da, "T"))))
					b = keySeq(world.Rows(db2, "T"), keys) + " " + fmt.Sprint(sortedInts(us(world.Rows(db2, "T"))))
				} else {
					a, b = fmt.Sprint(sortedInts(us(world.Rows(da, "T")))), fmt.Sprint(sortedInts(us(world.Rows(db2, "T"))))
				}
				if a != "[]" {
					seen[fmt.Sprint(ci, q, a)] = struct{}{}
				}
				if a != b || strings.Join(ea, ";") != strings.Join(eb, ";") {
					op := "?"
					for _, o := range []string{"_eq", "_ne", "_gt", "_ge", "_lt", "_le", "_in", "_nin"} {
						if strings.Contains(q, "v: {"+o) {
							op = o
						}
					}
					r.Violation(rep.Violation{Fingerprint: fmt.Sprintf("C07:composite-matcher:%s:%s", k.name, op), Summary: fmt.Sprintf("schema %s\n request %s\n scan u=%s %v, index u=%s %v", sdl, q, a, ea, b, eb),
						Replay: map[string]any{"engine": "c07-kinds", "schema": sdl, "create": create, "request": q}})
				}
			}
			ix.db.Close()
		}
		plain.db.Close()
	}
	return evals, len(seen)
}
