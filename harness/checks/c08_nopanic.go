package checks

import (
	"context"
	"fmt"
	"regexp"
	"runtime"
	"strings"
	"sync"


	"github.com/sourcenetwork/defradb/acp/identity"
	"github.com/sourcenetwork/defradb/crypto"
	"github.com/sourcenetwork/defradb/internal/db"
	"github.com/sourcenetwork/defradb/internal/verifh/rep"
	"github.com/sourcenetwork/defradb/internal/verifh/vkv"
	"github.com/sourcenetwork/defradb/internal/verifh/world"
)

const c08RelSDL = `
type Author { name: String  age: Int  books: [Book] }
type Book { title: String @index  rating: Float  pages: Int @crdt(type: pncounter)  author: Author }
`

var tokenRe = regexp.MustCompile(`"[^"]*"|[A-Za-z_][A-Za-z_0-9]*|-?[0-9]+(\.[0-9]+)?|[{}()\[\]:,!$@.]|\S`)

var tokenAlphabet = []string{"{", "}", "(", ")", "[", "]", ":", ",", "null", "0", "-1", `""`, `"x"`, "_eq", "_and", "filter", "order", "limit", "cid", "docID", "_group", "ASC"}

func c08Corpus(docID, cidStr string) []string {
	c := []string{
		`query { Book { _docID title rating pages } }`,
		`query { Book(filter: {rating: {_gt: 1.5}}) { title } }`,
		`query { Book(filter: {_and: [{rating: {_ge: 1}}, {title: {_like: "%a%"}}]}) { title } }`,
		`query { Book(filter: {_or: [{pages: {_lt: 3}}, {_not: {title: {_eq: "b"}}}]}, order: {rating: DESC}, limit: 2, offset: 1) { title rating } }`,
		`query { Book(order: [{rating: ASC}, {title: DESC}]) { title } }`,
		`query { Book(groupBy: [rating]) { rating _count(_group: {}) _group { title } } }`,
		`query { Book(groupBy: [rating]) { rating _sum(_group: {field: pages}) _avg(_group: {field: pages}) _max(_group: {field: pages}) _min(_group: {field: pages}) } }`,
		`query { _count(Book: {filter: {rating: {_gt: 1}}}) }`,
		`query { _sum(Book: {field: pages}) }`,
		`query { _avg(Book: {field: rating, filter: {pages: {_ne: null}}}) }`,
		`query { _max(Book: {field: rating}) _min(Book: {field: rating}) }`,
		`query { Author { name books { title } _count(books: {}) } }`,
		`query { Author { name _sum(books: {field: pages}) _avg(books: {field: rating}) } }`,
		`query { Author(filter: {books: {rating: {_gt: 1}}}) { name books(filter: {rating: {_gt: 2}}, order: {title: ASC}, limit: 1) { title } } }`,
		`query { Book(filter: {author: {name: {_eq: "ann"}}}) { title author { name age } } }`,
		`query { Book(order: {author: {name: ASC}}) { title } }`,
		`query { Book(filter: {author_id: {_eq: "` + docID + `"}}) { title } }`,
		`query { Book(docID: "` + docID + `") { title } }`,
		`query { Book(docID: ["` + docID + `"]) { title _version { cid height } } }`,
		`query { Book(cid: "` + cidStr + `", docID: "` + docID + `") { title pages } }`,
		`query { commits { cid height docID fieldName delta } }`,
		`query { commits { cid height } }`,
		`query { commits(docID: "` + docID + `") { cid links { cid name } } }`,
		`query { commits(docID: "` + docID + `", fieldName: "title") { cid height } }`,
		`query { commits(cid: "` + cidStr + `") { cid height collectionID } }`,
		`query { commits(groupBy: [height]) { height _group { cid } } }`,
		`query { commits(order: {height: DESC}, limit: 2) { cid height signature { type identity value } } }`,
		`query { latestCommits(docID: "` + docID + `") { cid height links { cid name } } }`,
		`query { latestCommits(docID: "` + docID + `", fieldName: "pages") { cid } }`,
		`query { Book(showDeleted: true) { _deleted title } }`,
		`query { Book { title _group { title } } }`,
		`query { Book(limit: 0) { title } }`,
		`query { Book(filter: {title: {_in: ["a", null]}}) { title } }`,
		`query { Book(filter: {rating: {_nin: [1.0]}}) { title } }`,
		`query @explain { Book(filter: {title: {_eq: "a"}}) { title } }`,
		`query @explain(type: execute) { Book { title } }`,
		`query { __type(name: "Book") { name fields { name } } }`,
		`query { a: Book { t: title } b: Book(limit: 1) { title } }`,
		`query { Book { ...on Book { title } } }`,
		`query($f: Float) { Book(filter: {rating: {_gt: $f}}) { title } }`,
		`mutation { create_Book(input: {title: "n", rating: 1.0}) { _docID } }`,
		`mutation { update_Book(filter: {title: {_eq: "a"}}, input: {pages: 1}) { title pages } }`,
		`mutation { delete_Book(filter: {title: {_eq: "zz"}}) { _docID } }`,
		`mutation { upsert_Book(filter: {title: {_eq: "q"}}, create: {title: "q"}, update: {rating: 2.0}) { title } }`,
	}
	return c
}

func c08Build(signing bool) (*db.DB, *vkv.Store, string, string, error) {
	ctx := context.Background()
	st := vkv.NewStore()
	var opts []db.Option
	if signing {
		id, err := identity.Generate(crypto.KeyTypeSecp256k1)
		if err != nil {
			return nil, nil, "", "", err
		}
		opts = append(opts, db.WithEnabledSigning(true), db.WithNodeIdentity(id))
	}
	d, err := world.NewDB(ctx, st, opts...)
	if err != nil {
		return nil, nil, "", "", err
	}
	if _, err := d.AddSchema(ctx, c08RelSDL); err != nil {
		return nil, nil, "", "", err
	}
	data, errs := world.Exec(ctx, d, `mutation { create_Author(input: {name: "ann", age: 30}) { _docID } }`)
	if len(errs) > 0 {
		return nil, nil, "", "", fmt.Errorf("%v", errs)
	}
	aid := world.Rows(data, "create_Author")[0]["_docID"].(string)
	var bid string
	for i, t := range []string{"a", "b", "ca"} {
		data, errs = world.Exec(ctx, d, fmt.Sprintf(`mutation { create_Book(input: {title: %q, rating: %d.5, pages: %d, author_id: %q}) { _docID } }`, t, i, i+1, aid))
		if len(errs) > 0 {
			return nil, nil, "", "", fmt.Errorf("%v", errs)
		}
		bid = world.Rows(data, "create_Book")[0]["_docID"].(string)
	}
	world.Exec(ctx, d, fmt.Sprintf(`mutation { update_Book(docID: %q, input: {pages: 2, rating: null}) { _docID } }`, bid))
	world.Exec(ctx, d, `mutation { create_Book(input: {title: "gone"}) { _docID } }`)
	world.Exec(ctx, d, `mutation { delete_Book(filter: {title: {_eq: "gone"}}) { _docID } }`)
	hs := crdtxHeads(st.Snapshot(), bid)
	if len(hs) == 0 {
		return nil, nil, "", "", fmt.Errorf("no head")
	}
	return d, st, bid, hs[0], nil
}

// c08NoPanic runs the corpus and every single-token mutation of it (delete / duplicate / replace by
// each token of the alphabet) under recover and the hang guard, on a database with and without
// commit signing. Any response (data or errors) is fine; a panic or a hang is a violation.
func c08NoPanic(r *rep.Run) (bad, total int) {
	ctx := context.Background()
	type job struct {
		signing bool
		req     string
	}
	var mu sync.Mutex
	for _, signing := range []bool{true, false} {
		d0, st0, docID, cidStr, err := c08Build(signing)
		if err != nil {
			rep.HarnessError("corpus db: %v", err)
		}
		base := st0.Snapshot()
		d0.Close()
		var reqs []string
		for _, c := range c08Corpus(docID, cidStr) {
			reqs = append(reqs, c)
			toks := tokenRe.FindAllString(c, -1)
			for i := range toks {
				mut := func(repl []string) string {
					out := append(append(append([]string{}, toks[:i]...), repl...), toks[i+1:]...)
					return strings.Join(out, " ")
				}
				reqs = append(reqs, mut(nil), mut([]string{toks[i], toks[i]}))
				if rep.Tier() == "thorough" || i%2 == 0 {
					for _, a := range tokenAlphabet {
						if a != toks[i] {
							reqs = append(reqs, mut([]string{a}))
						}
					}
				}
			}
		}
		jobs := make(chan string, len(reqs))
		for _, q := range reqs {
			jobs <- q
		}
		close(jobs)
		var wg sync.WaitGroup
		for w := 0; w < runtime.NumCPU(); w++ {
			wg.Add(1)
			go func() {
				defer wg.Done()
				st := vkv.NewStoreFrom(base)
				var opts []db.Option
				if signing {
					id, _ := identity.Generate(crypto.KeyTypeSecp256k1)
					opts = append(opts, db.WithEnabledSigning(true), db.WithNodeIdentity(id))
				}
				d, err := world.NewDB(ctx, st, opts...)
				if err != nil {
					rep.HarnessError("%v", err)
				}
				defer d.Close()
				for q := range jobs {
					isMut := strings.Contains(q, "mutation")
					_, _, hung, pan := world.ExecGuard(ctx, d, q)
					mu.Lock()
					total++
					mu.Unlock()
					if hung || pan != nil {
						mu.Lock()
						bad++
						mu.Unlock()
						what := "panic"
						if hung {
							what = "hang"
						}
						r.Violation(rep.Violation{Fingerprint: fmt.Sprintf("C08:%s:%s", what, panicSite(pan)), Summary: fmt.Sprintf("request %q (signing=%v): hung=%v panic=%v", q, signing, hung, pan),
							Replay: map[string]any{"engine": "c08-nopanic", "request": q, "signing": signing}})
						if hung {
							return
						}
					}
					if isMut {
						st.Restore(base)
					}
				}
			}()
		}
		wg.Wait()
	}
	return bad, total
}

func panicSite(p any) string {
	s := fmt.Sprint(p)
	if len(s) > 60 {
		s = s[:60]
	}
	return s
}
