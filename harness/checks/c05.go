package checks

import (
	"encoding/json"
	"fmt"
	"os"
	"path/filepath"
	"runtime"
	"strings"

	"github.com/ipfs/go-cid"
	"github.com/sourcenetwork/immutable"
	"github.com/sourcenetwork/lens/host-go/config/model"

	"github.com/sourcenetwork/defradb/client"
	"github.com/sourcenetwork/defradb/internal/verifh/crdtx"
	"github.com/sourcenetwork/defradb/internal/verifh/faultx"
	"github.com/sourcenetwork/defradb/internal/verifh/rep"
	"github.com/sourcenetwork/defradb/internal/verifh/vkv"
	"github.com/sourcenetwork/defradb/internal/verifh/world"
)

func init() { Register("C05", runC05) }

func gqlOp(name, req string) faultx.Op {
	return faultx.Op{Name: name, Run: func(e *faultx.Env) error {
		_, errs := world.Exec(e.Ctx, e.DB, req)
		if len(errs) > 0 {
			return fmt.Errorf("%s", strings.Join(errs, "; "))
		}
		return nil
	}}
}

func colOp(name, coll string, f func(e *faultx.Env, c client.Collection) error) faultx.Op {
	return faultx.Op{Name: name, Run: func(e *faultx.Env) error {
		c, err := e.DB.GetCollectionByName(e.Ctx, coll)
		if err != nil {
			return err
		}
		return f(e, c)
	}}
}

const c05SDL = `type U { a: Int @index  s: String  c: Int @crdt(type: pcounter) }`

func c05Dump(colls []string, fields map[string]string, probes []string) func(e *faultx.Env) string {
	return func(e *faultx.Env) string {
		var b strings.Builder
		for _, c := range colls {
			data, errs := world.Exec(e.Ctx, e.DB, fmt.Sprintf(`query { %s(showDeleted: true) { _docID _deleted %s } }`, c, fields[c]))
			b.WriteString(c + "=" + world.CanonRowsUnordered(world.Rows(data, c)) + strings.Join(errs, ";") + "\n")
		}
		data, errs := world.Exec(e.Ctx, e.DB, `query { commits { cid height docID fieldName links { cid name } } }`)
		b.WriteString("commits=" + world.CanonRowsUnordered(world.Rows(data, "commits")) + strings.Join(errs, ";") + "\n")
		for _, p := range probes {
			data, errs := world.Exec(e.Ctx, e.DB, p)
			for i := range errs {
				// the suggestion list of graphql-go is built from a map: order is not deterministic
				if k := strings.Index(errs[i], "Did you mean"); k >= 0 {
					errs[i] = errs[i][:k]
				}
			}
			b.WriteString("probe " + p + " => " + world.Canon(data) + " " + strings.Join(errs, ";") + "\n")
		}
		cols, err := e.DB.GetCollections(e.Ctx, client.CollectionFetchOptions{IncludeInactive: immutable.Some(true)})
		if err != nil {
			b.WriteString("collections error " + err.Error())
		}
		for _, c := range cols {
			v := c.Version()
			ix, _ := c.GetIndexes(e.Ctx)
			j, _ := json.Marshal(ix)
			b.WriteString(fmt.Sprintf("col %s ver=%s active=%v fields=%d indexes=%s\n", v.Name, v.VersionID, v.IsActive, len(v.Fields), j))
		}
		// raw heads
		e.Store.Snapshot().Each(func(k string, v []byte) {
			if strings.HasPrefix(k, "/db/heads/") {
				b.WriteString(k + "\n")
			}
		})
		return b.String()
	}
}

func c05DocScenario(depth int) *faultx.Scenario {
	return &faultx.Scenario{
		Name:  "documents (indexed collection, 3 documents, remote commits)",
		Depth: depth,
		Build: func(e *faultx.Env) error {
			if _, err := e.DB.AddSchema(e.Ctx, c05SDL); err != nil {
				return err
			}
			var ids []string
			for i := 0; i < 3; i++ {
				data, errs := world.Exec(e.Ctx, e.DB, fmt.Sprintf(`mutation { create_U(input: {a: %d, s: "x%d", c: 1}) { _docID } }`, i, i))
				if len(errs) > 0 {
					return fmt.Errorf("%v", errs)
				}
				ids = append(ids, world.Rows(data, "create_U")[0]["_docID"].(string))
			}
			e.Aux["ids"] = ids
			// a remote node B with the same content writes an update and a delete that A merges later
			bst := vkv.NewStore()
			bdb, err := world.NewDB(e.Ctx, bst)
			if err != nil {
				return err
			}
			defer bdb.Close()
			cols, err := bdb.AddSchema(e.Ctx, c05SDL)
			if err != nil {
				return err
			}
			e.Aux["colID"] = cols[0].CollectionID
			for i := 0; i < 3; i++ {
				if _, errs := world.Exec(e.Ctx, bdb, fmt.Sprintf(`mutation { create_U(input: {a: %d, s: "x%d", c: 1}) { _docID } }`, i, i)); len(errs) > 0 {
					return fmt.Errorf("%v", errs)
				}
			}
			head := func(doc string) string {
				var h string
				pre := "/db/heads/d/" + doc + "/C/"
				bst.Snapshot().Each(func(k string, v []byte) {
					if strings.HasPrefix(k, pre) {
						h = k[len(pre):]
					}
				})
				return h
			}
			if _, errs := world.Exec(e.Ctx, bdb, fmt.Sprintf(`mutation { update_U(docID: %q, input: {a: 7, s: "remote", c: 5}) { _docID } }`, ids[0])); len(errs) > 0 {
				return fmt.Errorf("%v", errs)
			}
			e.Aux["remoteUpdate"] = head(ids[0])
			if _, errs := world.Exec(e.Ctx, bdb, fmt.Sprintf(`mutation { delete_U(docID: %q) { _docID } }`, ids[1])); len(errs) > 0 {
				return fmt.Errorf("%v", errs)
			}
			e.Aux["remoteDelete"] = head(ids[1])
			e.Aux["remoteSnap"] = bst.Snapshot()
			return nil
		},
		Dump: c05Dump([]string{"U"}, map[string]string{"U": "a s c"}, []string{
			`query { U(filter: {a: {_ge: 1}}, order: {a: ASC}) { a s } }`,
			`query { U(filter: {a: {_eq: 9}}) { s } }`,
		}),
		Ops: []faultx.Op{
			colOp("Create", "U", func(e *faultx.Env, c client.Collection) error {
				d, err := client.NewDocFromJSON([]byte(`{"a": 9, "s": "n", "c": 2}`), c.Definition())
				if err != nil {
					return err
				}
				return c.Create(e.Ctx, d)
			}),
			colOp("CreateMany", "U", func(e *faultx.Env, c client.Collection) error {
				d1, _ := client.NewDocFromJSON([]byte(`{"a": 10, "s": "m1"}`), c.Definition())
				d2, _ := client.NewDocFromJSON([]byte(`{"a": 11, "s": "m2"}`), c.Definition())
				return c.CreateMany(e.Ctx, []*client.Document{d1, d2})
			}),
			colOp("Update", "U", func(e *faultx.Env, c client.Collection) error {
				id, _ := client.NewDocIDFromString(e.Aux["ids"].([]string)[2])
				d, err := c.Get(e.Ctx, id, false)
				if err != nil {
					return err
				}
				if err := d.Set("a", int64(5)); err != nil {
					return err
				}
				if err := d.Set("s", "upd"); err != nil {
					return err
				}
				return c.Update(e.Ctx, d)
			}),
			colOp("Save", "U", func(e *faultx.Env, c client.Collection) error {
				id, _ := client.NewDocIDFromString(e.Aux["ids"].([]string)[0])
				d, err := c.Get(e.Ctx, id, false)
				if err != nil {
					return err
				}
				if err := d.Set("c", int64(3)); err != nil {
					return err
				}
				return c.Save(e.Ctx, d)
			}),
			colOp("Delete", "U", func(e *faultx.Env, c client.Collection) error {
				id, _ := client.NewDocIDFromString(e.Aux["ids"].([]string)[2])
				ok, err := c.Delete(e.Ctx, id)
				if err == nil && !ok {
					return fmt.Errorf("not deleted")
				}
				return err
			}),
			colOp("UpdateWithFilter", "U", func(e *faultx.Env, c client.Collection) error {
				_, err := c.UpdateWithFilter(e.Ctx, `{a: {_ge: 0}}`, `{"s": "z"}`)
				return err
			}),
			colOp("DeleteWithFilter", "U", func(e *faultx.Env, c client.Collection) error {
				_, err := c.DeleteWithFilter(e.Ctx, `{a: {_ge: 1}}`)
				return err
			}),
			gqlOp("gql-create", `mutation { create_U(input: {a: 20, s: "g"}) { _docID } }`),
			gqlOp("gql-create-multi", `mutation { create_U(input: [{a: 21, s: "g1"}, {a: 22, s: "g2"}]) { _docID } }`),
			gqlOp("gql-update-filter", `mutation { update_U(filter: {a: {_le: 1}}, input: {s: "gu"}) { _docID } }`),
			gqlOp("gql-delete-filter", `mutation { delete_U(filter: {a: {_ge: 1}}) { _docID } }`),
			gqlOp("gql-upsert-update", `mutation { upsert_U(filter: {a: {_eq: 0}}, create: {a: 0, s: "uc"}, update: {s: "uu"}) { _docID } }`),
			gqlOp("gql-upsert-create", `mutation { upsert_U(filter: {a: {_eq: 77}}, create: {a: 77, s: "uc"}, update: {s: "uu"}) { _docID } }`),
			{Name: "merge-remote-update", Run: func(e *faultx.Env) error {
				c, _ := cid.Decode(e.Aux["remoteUpdate"].(string))
				return crdtx.Deliver(e.Ctx, e.DB, e.Store, e.Aux["remoteSnap"].(vkv.Snap), e.Aux["ids"].([]string)[0], e.Aux["colID"].(string), c)
			}},
			{Name: "merge-remote-delete", Run: func(e *faultx.Env) error {
				c, _ := cid.Decode(e.Aux["remoteDelete"].(string))
				return crdtx.Deliver(e.Ctx, e.DB, e.Store, e.Aux["remoteSnap"].(vkv.Snap), e.Aux["ids"].([]string)[1], e.Aux["colID"].(string), c)
			}},
		},
	}
}

func c05SchemaScenario(depth int) *faultx.Scenario {
	importFile := filepath.Join(os.TempDir(), fmt.Sprintf("verif-c05-import-%d.json", os.Getpid()))
	return &faultx.Scenario{
		Name:   "schema, indexes, import (fresh DB object per run)",
		Depth:  depth,
		Reopen: true,
		Build: func(e *faultx.Env) error {
			if _, err := e.DB.AddSchema(e.Ctx, `type U { a: Int  s: String @index }`); err != nil {
				return err
			}
			for i := 0; i < 2; i++ {
				if _, errs := world.Exec(e.Ctx, e.DB, fmt.Sprintf(`mutation { create_U(input: {a: %d, s: "x%d"}) { _docID } }`, i, i)); len(errs) > 0 {
					return fmt.Errorf("%v", errs)
				}
			}
			return os.WriteFile(importFile, []byte(`{"U":[{"a":40,"s":"i1"},{"a":41,"s":"i2"}]}`), 0o644)
		},
		Dump: c05Dump([]string{"U"}, map[string]string{"U": "a s"}, []string{
			`query { U(filter: {a: {_ge: 1}}) { a } }`,
			`query { U(filter: {s: {_eq: "x1"}}) { a } }`,
			`query { V { _docID } }`,
			`query { U { extra } }`,
		}),
		Ops: []faultx.Op{
			colOp("CreateIndex", "U", func(e *faultx.Env, c client.Collection) error {
				_, err := c.CreateIndex(e.Ctx, client.IndexCreateRequest{Name: "ix_a", Fields: []client.IndexedFieldDescription{{Name: "a"}}})
				return err
			}),
			colOp("CreateUniqueIndex", "U", func(e *faultx.Env, c client.Collection) error {
				_, err := c.CreateIndex(e.Ctx, client.IndexCreateRequest{Name: "ux_a", Unique: true, Fields: []client.IndexedFieldDescription{{Name: "a"}}})
				return err
			}),
			colOp("DropIndex", "U", func(e *faultx.Env, c client.Collection) error {
				ix, err := c.GetIndexes(e.Ctx)
				if err != nil {
					return err
				}
				if len(ix) == 0 {
					return fmt.Errorf("no index")
				}
				return c.DropIndex(e.Ctx, ix[0].Name)
			}),
			{Name: "AddSchema", Run: func(e *faultx.Env) error {
				_, err := e.DB.AddSchema(e.Ctx, `type V { n: String }`)
				return err
			}},
			{Name: "PatchSchema", Run: func(e *faultx.Env) error {
				return e.DB.PatchSchema(e.Ctx, `[{"op": "add", "path": "/U/Fields/-", "value": {"Name": "extra", "Kind": "String"}}]`, immutable.None[model.Lens](), true)
			}},
			{Name: "BasicImport", Run: func(e *faultx.Env) error { return e.DB.BasicImport(e.Ctx, importFile) }},
			gqlOp("gql-create", `mutation { create_U(input: {a: 20, s: "g"}) { _docID } }`),
		},
	}
}

func runC05(args []string) int {
	if len(args) >= 2 && args[0] == "replay" {
		return replayC05(args[1])
	}
	r := rep.New("C05", "fault_enumeration")
	depth := 1
	if rep.Tier() == "thorough" {
		depth = 2
	}
	total := faultx.Stats{PerOp: map[string]int{}}
	distinct := 0
	for _, sc := range []*faultx.Scenario{c05DocScenario(depth), c05SchemaScenario(depth)} {
		viols, st, err := faultx.Explore(sc, runtime.NumCPU(), r.Sample)
		if err != nil {
			rep.HarnessError("%s: %v", sc.Name, err)
		}
		for _, v := range viols {
			// replay twice before reporting
			if v.Replay != nil {
				ok := true
				for k := 0; k < 2; k++ {
					fp := v.Replay["fault"].(map[string]any)
					rv, err := faultx.Replay(sc, v.Replay["prior"].([]string), v.Replay["op"].(string),
						faultx.FaultPoint{Kind: fp["kind"].(string), Key: fp["key"].(string), Occ: fp["occurrence"].(int), Fault: fp["fault"].(string)})
					if err != nil {
						rep.HarnessError("replay: %v", err)
					}
					ok = ok && rv != nil && rv.Fingerprint == v.Fingerprint
				}
				if !ok {
					rep.HarnessError("violation %s does not reproduce on replay: %s", v.Fingerprint, v.Detail)
				}
			}
			r.Violation(rep.Violation{Fingerprint: v.Fingerprint, Summary: v.Detail, Replay: v.Replay})
		}
		total.PriorStates += st.PriorStates
		total.Runs += st.Runs
		total.Unreached += st.Unreached
		total.OutcomeErrUnchanged += st.OutcomeErrUnchanged
		total.OutcomeOkComplete += st.OutcomeOkComplete
		for k, v := range st.PerOp {
			total.PerOp[k] += v
			distinct++
		}
	}
	r.Coverage["evaluations"] = total.Runs
	r.Coverage["distinct_nontrivial"] = total.Runs - total.Unreached
	r.Coverage["rule"] = "one evaluation = one (prior state, operation, storage call named by kind/key/occurrence, fault kind) re-execution on the real code; non-trivial = the faulted call was actually issued in that run; all are distinct by construction"
	r.Coverage["prior_states"] = total.PriorStates
	r.Coverage["fault_points_per_operation"] = total.PerOp
	r.Coverage["outcome_error_and_unchanged"] = total.OutcomeErrUnchanged
	r.Coverage["outcome_success_and_complete"] = total.OutcomeOkComplete
	r.Coverage["exhaustive"] = true
	r.Coverage["bounds"] = map[string]any{"faults_per_run": 1, "prior_state_depth": depth}
	r.Assumptions = []string{"the store commits atomically (badger's contract; vkv models it)", "faults inside the ACP engine's own store and the versioned fetcher's transient store are not injected"}
	return r.Finish()
}

func replayC05(file string) int {
	b, err := os.ReadFile(file)
	if err != nil {
		rep.HarnessError("%v", err)
	}
	var f struct {
		Fingerprint string
		Replay      struct {
			Scenario string
			Prior    []string
			Op       string
			Fault    struct {
				Kind, Key, Fault string
				Occurrence       int
			}
		}
	}
	if err := json.Unmarshal(b, &f); err != nil {
		rep.HarnessError("%v", err)
	}
	for _, sc := range []*faultx.Scenario{c05DocScenario(0), c05SchemaScenario(0)} {
		if sc.Name != f.Replay.Scenario {
			continue
		}
		v, err := faultx.Replay(sc, f.Replay.Prior, f.Replay.Op, faultx.FaultPoint{Kind: f.Replay.Fault.Kind, Key: f.Replay.Fault.Key, Occ: f.Replay.Fault.Occurrence, Fault: f.Replay.Fault.Fault})
		if err != nil {
			rep.HarnessError("%v", err)
		}
		if v != nil {
			fmt.Println("reproduced:", v.Fingerprint, v.Detail)
			return 1
		}
		fmt.Println("not reproduced")
		return 0
	}
	rep.HarnessError("unknown scenario %q", f.Replay.Scenario)
	return 2
}
