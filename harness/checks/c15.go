package checks

// C15 — replication eventually delivers every commit, across outages (DESIGN.md §4 C15, engine E5).
//
// Two real nodes, each a db.DB over the store device plus a real net.Peer assembled around a libp2p
// host that never listens (harness/inpkg/net): SetReplicator, the update-event loop, pushLog, the
// failure bookkeeping, retryReplicators / retryReplicator / retryDoc and the receiver's
// pushLogHandler -> processPushlog -> syncDAG -> merge are the repository's code; only the gRPC
// invoke is intercepted (a dial option) and delivered to the target's handler, or refused while the
// target is down. Everything runs under the cooperative scheduler on its canonical schedule, so an
// event sequence is one deterministic execution. Breadth-first search over event sequences
// {create, update, second document, B down, B up, retry tick, schema patch on both nodes, restart A,
// restart B} with states de-duplicated by store contents. In every state: every document of A is
// either merged on B at A's heads or owed (a retry record for B exists on A); and from every state
// the suffix [B up, tick, tick, tick] must bring B's documents to A's, clear all retry records and
// leave the replicator active.

import (
	"context"
	"encoding/json"
	"fmt"
	"os"
	"sort"
	"strings"
	"time"

	blocks "github.com/ipfs/go-block-format"
	cid "github.com/ipfs/go-cid"
	ipld "github.com/ipfs/go-ipld-format"
	libp2p "github.com/libp2p/go-libp2p"
	"github.com/libp2p/go-libp2p/core/host"
	libpeer "github.com/libp2p/go-libp2p/core/peer"
	"github.com/sourcenetwork/immutable"
	"github.com/sourcenetwork/lens/host-go/config/model"

	"github.com/sourcenetwork/defradb/client"
	"github.com/sourcenetwork/defradb/internal/datastore"
	"github.com/sourcenetwork/defradb/internal/db"
	"github.com/sourcenetwork/defradb/internal/verifh/rep"
	"github.com/sourcenetwork/defradb/internal/verifh/vkv"
	"github.com/sourcenetwork/defradb/internal/verifh/vsched"
	"github.com/sourcenetwork/defradb/internal/verifh/world"
	defranet "github.com/sourcenetwork/defradb/net"
)

func init() { Register("C15", runC15) }

const c15SDL = `type User { name: String  age: Int }`

type c15Node struct {
	st   *vkv.Store
	db   *db.DB
	peer *defranet.Peer
	host host.Host
	up   bool
}

type c15Exch struct{ other **c15Node }

func (e c15Exch) GetBlock(ctx context.Context, c cid.Cid) (blocks.Block, error) {
	o := *e.other
	if o == nil || !o.up {
		return nil, ipld.ErrNotFound{Cid: c}
	}
	return datastore.BlockstoreFrom(o.st).Get(ctx, c)
}
func (e c15Exch) GetBlocks(ctx context.Context, cs []cid.Cid) (<-chan blocks.Block, error) {
	ch := make(chan blocks.Block, len(cs))
	for _, c := range cs {
		if b, err := e.GetBlock(ctx, c); err == nil {
			ch <- b
		}
	}
	close(ch)
	return ch, nil
}
func (e c15Exch) NotifyNewBlocks(ctx context.Context, bs ...blocks.Block) error { return nil }
func (e c15Exch) Close() error                                                  { return nil }

var c15Hosts []host.Host

type c15World struct {
	ctx     context.Context
	A, B    *c15Node
	byID    map[libpeer.ID]**c15Node
	docs    []string
	patched  bool
	patchedA bool
	errs     []string
}

func (w *c15World) open(n *c15Node, other **c15Node, fresh bool) error {
	d, err := world.NewDB(w.ctx, n.st)
	if err != nil {
		return err
	}
	n.db = d
	if fresh {
		if _, err := d.AddSchema(w.ctx, c15SDL); err != nil {
			return err
		}
	}
	p, err := defranet.VerifNewPeer(w.ctx, d, d.Events(), n.host, c15Exch{other}, []time.Duration{-time.Hour},
		func(to libpeer.ID) *defranet.Peer {
			t := w.byID[to]
			if t == nil || *t == nil || !(*t).up {
				return nil
			}
			return (*t).peer
		})
	if err != nil {
		return err
	}
	n.peer = p
	vsched.Go(p.VerifMessageLoop)
	return nil
}

func (w *c15World) restart(n *c15Node, other **c15Node) error {
	n.peer.VerifStop()
	n.db.Close()
	n.st.Restore(n.st.Snapshot())
	return w.open(n, other, false)
}

func (w *c15World) settle() {
	for i := 0; i < 4; i++ {
		vsched.Quiesce()
	}
}

func c15Q(ctx context.Context, d *db.DB, q string) (any, []string) { return world.Exec(ctx, d, q) }

// apply runs one event; false = not applicable in this state.
func (w *c15World) apply(ev string) bool {
	ctx := w.ctx
	switch ev {
	case "setrep":
		// the caller's context ends when the call returns (as for every HTTP or CLI request): whatever the
		// call leaves running in the background must not depend on it
		cctx, cancel := context.WithCancel(ctx)
		err := w.A.peer.SetReplicator(cctx, libpeer.AddrInfo{ID: w.B.host.ID()})
		cancel()
		if err != nil {
			w.errs = append(w.errs, "setrep: "+err.Error())
		}
	case "create", "create2":
		name := map[string]string{"create": "n1", "create2": "n2"}[ev]
		world.SeedRand("c15", ev)
		data, errs := c15Q(ctx, w.A.db, fmt.Sprintf(`mutation { create_User(input: {name: %q, age: 1}) { _docID } }`, name))
		world.UnseedRand()
		if len(errs) > 0 {
			return false // already exists
		}
		id, _ := docIDOf(data, "create_User")
		w.docs = append(w.docs, id)
	case "update":
		if len(w.docs) == 0 {
			return false
		}
		d, _ := c15Q(ctx, w.A.db, fmt.Sprintf(`query { User(docID: %q) { age } }`, w.docs[0]))
		rows := world.Rows(d, "User")
		if len(rows) == 0 {
			return false
		}
		age, _ := rows[0]["age"].(int64)
		world.SeedRand("c15", ev, age)
		_, errs := c15Q(ctx, w.A.db, fmt.Sprintf(`mutation { update_User(docID: %q, input: {age: %d}) { _docID } }`, w.docs[0], age+1))
		world.UnseedRand()
		if len(errs) > 0 {
			w.errs = append(w.errs, fmt.Sprint("update: ", errs))
		}
	case "down":
		if !w.B.up {
			return false
		}
		w.B.up = false
	case "up":
		if w.B.up {
			return false
		}
		w.B.up = true
	case "tick":
		w.A.peer.VerifRetryTick(ctx)
	case "patch":
		if w.patched || w.patchedA {
			return false
		}
		for _, n := range []*c15Node{w.A, w.B} {
			if err := n.db.PatchSchema(ctx, `[{"op": "add", "path": "/User/Fields/-", "value": {"Name": "email", "Kind": "String"}}]`, immutable.None[model.Lens](), true); err != nil {
				w.errs = append(w.errs, "patch: "+err.Error())
			}
		}
		w.patched = true
	case "patchA":
		// only the source is patched: B stays on the older version and ignores the field it does not know
		if w.patched || w.patchedA {
			return false
		}
		if err := w.A.db.PatchSchema(ctx, `[{"op": "add", "path": "/User/Fields/-", "value": {"Name": "email", "Kind": "String"}}]`, immutable.None[model.Lens](), true); err != nil {
			w.errs = append(w.errs, "patchA: "+err.Error())
		}
		w.patchedA = true
	case "restartA":
		if err := w.restart(w.A, &w.B); err != nil {
			w.errs = append(w.errs, "restartA: "+err.Error())
		}
	case "restartB":
		if err := w.restart(w.B, &w.A); err != nil {
			w.errs = append(w.errs, "restartB: "+err.Error())
		}
	}
	return true
}

func c15Docs(ctx context.Context, d *db.DB) string {
	data, errs := c15Q(ctx, d, `query { User(showDeleted: true) { _docID _deleted name age } }`)
	return world.CanonRowsUnordered(world.Rows(data, "User")) + strings.Join(errs, ";")
}

// heads returns docID -> sorted composite head cids, from the raw store.
func c15Heads(sn vkv.Snap) map[string]string {
	m := map[string][]string{}
	sn.Each(func(k string, v []byte) {
		if strings.HasPrefix(k, "/db/heads/d/") {
			parts := strings.Split(k[len("/db/heads/d/"):], "/")
			if len(parts) == 3 && parts[1] == "C" {
				m[parts[0]] = append(m[parts[0]], parts[2])
			}
		}
	})
	out := map[string]string{}
	for d, cs := range m {
		sort.Strings(cs)
		out[d] = strings.Join(cs, ",")
	}
	return out
}

func c15Retry(sn vkv.Snap) (docs []string, ids int) {
	sn.Each(func(k string, v []byte) {
		if i := strings.Index(k, "/rep/retry/doc/"); i >= 0 {
			p := strings.Split(k[i+len("/rep/retry/doc/"):], "/")
			docs = append(docs, p[len(p)-1])
		}
		if strings.Contains(k, "/rep/retry/id/") {
			ids++
		}
	})
	sort.Strings(docs)
	return
}

type c15Result struct {
	key      string
	notes    []string // violations: kind: detail
	outcome  string
	deadlock bool
	panicked any
}

// c15Run executes one event sequence (with setrep placed by the sequence itself) and the liveness suffix.
func c15Run(seq []string) c15Result {
	var res c15Result
	r := vsched.Run(c15Body(seq, &res))
	res.deadlock, res.panicked = r.Deadlock, r.Panic
	return res
}

func c15Body(seq []string, resp *c15Result) func() {
	return func() {
		var res c15Result
		defer func() { *resp = res }()
		w := &c15World{ctx: context.Background()}
		w.A = &c15Node{st: vkv.NewStore(), host: c15Hosts[0], up: true}
		w.B = &c15Node{st: vkv.NewStore(), host: c15Hosts[1], up: true}
		w.byID = map[libpeer.ID]**c15Node{c15Hosts[0].ID(): &w.A, c15Hosts[1].ID(): &w.B}
		if err := w.open(w.A, &w.B, true); err != nil {
			res.notes = append(res.notes, "harness: "+err.Error())
			return
		}
		if err := w.open(w.B, &w.A, true); err != nil {
			res.notes = append(res.notes, "harness: "+err.Error())
			return
		}
		w.settle()
		replicating := false
		safety := func(at string) {
			if !replicating {
				return
			}
			ha, hb := c15Heads(w.A.st.Snapshot()), c15Heads(w.B.st.Snapshot())
			owed, _ := c15Retry(w.A.st.Snapshot())
			for d, h := range ha {
				if hb[d] == h {
					continue
				}
				found := false
				for _, o := range owed {
					found = found || o == d
				}
				if !found {
					res.notes = append(res.notes, fmt.Sprintf("forgotten-commit: after %s document %s has heads %s on A and %q on B and A holds no retry record for it (owed: %v)", at, d, h, hb[d], owed))
				}
			}
		}
		for i, ev := range seq {
			if strings.Contains(ev, "||") {
				// events issued by concurrent threads (outage or tick *during* a write)
				vsched.BranchFromHere()
				for _, e := range strings.Split(ev, "||") {
					e := e
					vsched.Spawn(func() { w.apply(e) })
				}
				w.settle()
				vsched.BranchUntilHere()
				continue
			}
			if !w.apply(ev) {
				res.key = "inapplicable"
				return
			}
			w.settle()
			if ev == "setrep" {
				replicating = true
			}
			safety(fmt.Sprintf("event %d (%s)", i, ev))
		}
		// state key before the suffix
		skip := func(k string) bool { return !strings.Contains(k, "/db/ps/") }
		ownedA, nIDs := c15Retry(w.A.st.Snapshot())
		// the in-memory routing tables are part of the state (they are rebuilt at start from the peerstore)
		routes := fmt.Sprint(len(w.A.peer.VerifReplicators()), len(w.B.peer.VerifReplicators()), w.patchedA)
		res.key = fmt.Sprintf("%x|%x|%v|%v|%v|%d|%v|%s", w.A.st.Snapshot().Hash(skip), w.B.st.Snapshot().Hash(skip), w.B.up, w.patched, ownedA, nIDs, replicating, routes)
		if !replicating {
			return
		}
		// liveness suffix
		w.B.up = true
		for i := 0; i < 3; i++ {
			w.A.peer.VerifRetryTick(w.ctx)
			w.settle()
		}
		da, dbb := c15Docs(w.ctx, w.A.db), c15Docs(w.ctx, w.B.db)
		owed, ids := c15Retry(w.A.st.Snapshot())
		status := ""
		if reps, err := w.A.peer.GetAllReplicators(w.ctx); err == nil {
			for _, rp := range reps {
				status += fmt.Sprint(rp.Status)
			}
		}
		res.outcome = fmt.Sprintf("docs=%s owed=%d status=%s", da, len(owed), status)
		if da != dbb {
			res.notes = append(res.notes, fmt.Sprintf("not-delivered: after [up tick tick tick] B's documents differ from A's\n  A %s\n  B %s\n  retry records %v", da, dbb, owed))
		} else if len(owed) > 0 || ids > 0 {
			res.notes = append(res.notes, fmt.Sprintf("retry-records-remain: B equals A but %d retry documents / %d retry ids remain", len(owed), ids))
		} else if status != fmt.Sprint(client.ReplicatorStatusActive) {
			res.notes = append(res.notes, "replicator-not-active: everything is delivered but the replicator status is "+status)
		}
		for _, e := range w.errs {
			res.notes = append(res.notes, "operation-error: "+e)
		}
		w.A.peer.VerifStop()
		w.B.peer.VerifStop()
	}
}

func runC15(args []string) int {
	r := rep.New("C15", "model_checking")
	replayFile := ""
	if len(args) >= 2 && args[0] == "replay" {
		replayFile = args[1]
	}
	for len(c15Hosts) < 2 {
		h, err := libp2p.New(libp2p.NoListenAddrs, libp2p.DisableRelay())
		if err != nil {
			rep.HarnessError("libp2p host: %v", err)
		}
		c15Hosts = append(c15Hosts, h)
	}
	if replayFile != "" {
		b, err := os.ReadFile(replayFile)
		if err != nil {
			rep.HarnessError("replay: %v", err)
		}
		var f struct {
			Replay struct {
				Sequence []string `json:"sequence"`
				Schedule []int    `json:"schedule"`
			} `json:"replay"`
		}
		if err := json.Unmarshal(b, &f); err != nil {
			rep.HarnessError("replay: %v", err)
		}
		var res c15Result
		if len(f.Replay.Schedule) > 0 {
			x := vsched.Replay(f.Replay.Schedule, c15Body(f.Replay.Sequence, &res))
			res.deadlock, res.panicked = x.Deadlock, x.Panic
		} else {
			res = c15Run(f.Replay.Sequence)
		}
		fmt.Printf("sequence %v\noutcome=%s\nviolations=%v\ndeadlock=%v panic=%v\n", f.Replay.Sequence, res.outcome, res.notes, res.deadlock, res.panicked)
		if len(res.notes) > 0 || res.deadlock || res.panicked != nil {
			return 1
		}
		return 0
	}
	if len(args) >= 1 && args[0] == "seq" {
		res := c15Run(args[1:])
		fmt.Printf("key=%s\noutcome=%s\nnotes=%v\ndeadlock=%v panic=%v\n", res.key, res.outcome, res.notes, res.deadlock, res.panicked)
		return 0
	}
	thorough := rep.Tier() == "thorough"
	depth := 7
	budget := 6 * time.Minute
	if thorough {
		depth = 9
		budget = 45 * time.Minute
	}
	alphabet := []string{"setrep", "create", "update", "create2", "down", "up", "tick", "patch", "patchA", "restartA", "restartB"}
	start := time.Now()
	seen := map[string]bool{}
	frontier := [][]string{{}}
	states, transitions, executions := 0, 0, 0
	completed := 0
	outcomes := map[string]bool{}
	exhaustive := true
	for level := 1; level <= depth && len(frontier) > 0; level++ {
		var next [][]string
		for _, pre := range frontier {
			for _, ev := range alphabet {
				if time.Since(start) > budget {
					exhaustive = false
					break
				}
				seq := append(append([]string{}, pre...), ev)
				res := c15Run(seq)
				executions++
				if res.key == "inapplicable" {
					continue
				}
				transitions++
				info := map[string]any{"sequence": seq}
				if res.panicked != nil {
					r.Violation(rep.Violation{Fingerprint: "C15:panic", Summary: fmt.Sprintf("sequence %v: panic %v", seq, res.panicked), Replay: info})
					continue
				}
				if res.deadlock {
					r.Violation(rep.Violation{Fingerprint: "C15:deadlock", Summary: fmt.Sprintf("sequence %v: the driver never finishes", seq), Replay: info})
					continue
				}
				for _, n := range res.notes {
					kind := strings.SplitN(n, ":", 2)[0]
					if kind == "harness" {
						rep.HarnessError("C15: sequence %v: %s", seq, n)
					}
					r.Violation(rep.Violation{Fingerprint: "C15:" + kind + c15SeqClass(seq), Summary: fmt.Sprintf("sequence %v: %s", seq, n), Replay: info})
				}
				if res.outcome != "" && !outcomes[res.outcome] {
					outcomes[res.outcome] = true
					if len(seq) >= 4 {
						r.Sample(map[string]any{"sequence": seq, "after_suffix_up_tick_tick_tick": res.outcome})
					}
				}
				if !seen[res.key] {
					seen[res.key] = true
					states++
					next = append(next, seq)
				}
			}
		}
		if exhaustive {
			completed = level
		}
		frontier = next
	}
	// outages and ticks *during* a write: two threads issue the events, every schedule with at most
	// one preemption (two in thorough) is executed
	during := [][]string{
		{"setrep", "create", "update||down"},
		{"setrep", "down", "create", "up||update"},
		{"setrep", "down", "create", "up", "tick||update"},
		{"setrep", "create", "down", "update", "up", "tick||create2"},
		{"setrep", "create", "patch", "update||down"},
	}
	bound := 1
	if thorough {
		bound = 2
	}
	duringExec, duringDone := 0, 0
	for _, seq := range during {
		end := time.Now().Add(budget / 10)
		vsched.Stop = func() bool { return time.Now().After(end) }
		var res c15Result
		stt := vsched.Explore(bound, c15Body(seq, &res), func(x vsched.Result, choices []int) {
			info := map[string]any{"sequence": seq, "schedule": choices}
			if x.Panic != nil {
				r.Violation(rep.Violation{Fingerprint: "C15:panic:during", Summary: fmt.Sprintf("sequence %v schedule %v: panic %v", seq, choices, x.Panic), Replay: info})
				return
			}
			if x.Deadlock {
				r.Violation(rep.Violation{Fingerprint: "C15:deadlock:during", Summary: fmt.Sprintf("sequence %v schedule %v: deadlock", seq, choices), Replay: info})
				return
			}
			for _, n := range res.notes {
				kind := strings.SplitN(n, ":", 2)[0]
				if kind == "harness" {
					rep.HarnessError("C15: sequence %v: %s", seq, n)
				}
				r.Violation(rep.Violation{Fingerprint: "C15:" + kind + ":during" + c15SeqClass(seq), Summary: fmt.Sprintf("sequence %v schedule %v: %s", seq, choices, n), Replay: info})
			}
			outcomes[res.outcome] = true
		})
		vsched.Stop = nil
		duringExec += stt.Executions
		if stt.Truncated {
			exhaustive = false
		} else {
			duringDone++
		}
	}
	r.Coverage["concurrent_scenarios"] = len(during)
	r.Coverage["concurrent_scenarios_completed_at_bound"] = fmt.Sprintf("%d of %d at preemption bound %d", duringDone, len(during), bound)
	r.Coverage["concurrent_executions"] = duringExec
	r.Coverage["states"] = states
	r.Coverage["transitions"] = transitions
	r.Coverage["traces_validated_against_impl"] = executions
	r.Coverage["executions"] = executions
	r.Coverage["depth_completed"] = completed
	r.Coverage["distinct_outcomes"] = len(outcomes)
	r.Coverage["alphabet"] = alphabet
	r.Coverage["exhaustive"] = exhaustive
	r.Assumptions = []string{
		"transport: the gRPC invoke is intercepted by a dial option and handed to the target peer's real pushLogHandler, or refused while the target is down; block fetches read the other node's store while it is up; libp2p connectivity, gRPC back-off and real timer intervals are outside",
		"retry intervals are configured negative (always due); the retry loop body is an explicit event",
		"every event sequence runs on the scheduler's canonical schedule (one deterministic execution); states are de-duplicated by the store contents of both nodes (without the time-stamped peerstore values) plus the in-memory replicator routing tables",
		"pubsub (gossip) delivery has no retry path in this code base and is not explored; only the replicator configuration is",
		"an internal time budget ends the search with exhaustive=false and the depth completed, never with a verdict",
	}
	_ = os.Stderr
	return r.Finish()
}

// c15SeqClass names the features of a failing sequence (known-finding fingerprints stay narrow).
func c15SeqClass(seq []string) string {
	has := func(e string) bool {
		for _, x := range seq {
			if x == e {
				return true
			}
		}
		return false
	}
	var f []string
	for _, e := range []string{"patch", "patchA", "restartA", "restartB", "down"} {
		if has(e) {
			f = append(f, e)
		}
	}
	if len(f) == 0 {
		return ""
	}
	return ":" + strings.Join(f, "+")
}
