package checks

// C09 — relations read the same from both sides (DESIGN.md §4 C09).
//
// A small relational world (P 1-N K, P 1-1 O with the link held by O, self reference and a second
// hop through G) is loaded into one real database per index configuration. Every data set of the
// alphabet x every link/unlink/delete history up to the bound x every request of the grammar is
// executed on every configuration and compared (a) with a reference evaluator working on the model
// of the writes (the relation *is* the foreign key: both directions are derived from it), where the
// semantics are defined, and (b) across configurations (no index / index on the foreign key / index
// on the filtered or ordered field, which makes the planner invert the join) always.

import (
	"context"
	"encoding/json"
	"fmt"
	"os"
	"runtime"
	"sort"
	"strconv"
	"strings"
	"sync"
	"sync/atomic"

	"github.com/sourcenetwork/defradb/internal/db"
	"github.com/sourcenetwork/defradb/internal/verifh/rep"
	"github.com/sourcenetwork/defradb/internal/verifh/vkv"
	"github.com/sourcenetwork/defradb/internal/verifh/world"
)

func init() { Register("C09", runC09) }

// ---------- model ----------

type rdoc struct {
	Coll, Name string
	Ints       map[string]*int64
	Refs       map[string]string // relation field -> name of the target document ("" = none)
	Deleted    bool
}

type rmodel struct {
	docs  []*rdoc
	byNm  map[string]*rdoc
	ids   map[string]string // name -> docID
	rels  map[string]rrel   // "K.parent" -> target collection
	backs map[string]rback  // "P.kids" -> (K, parent, many)
}

type rrel struct{ Target string }
type rback struct {
	Coll, Field string
	Many        bool
}

func (m *rmodel) clone() *rmodel {
	n := &rmodel{byNm: map[string]*rdoc{}, ids: m.ids, rels: m.rels, backs: m.backs}
	for _, d := range m.docs {
		c := &rdoc{Coll: d.Coll, Name: d.Name, Ints: map[string]*int64{}, Refs: map[string]string{}, Deleted: d.Deleted}
		for k, v := range d.Ints {
			c.Ints[k] = v
		}
		for k, v := range d.Refs {
			c.Refs[k] = v
		}
		n.docs = append(n.docs, c)
		n.byNm[c.Name] = c
	}
	return n
}

func (m *rmodel) live(coll string) []*rdoc {
	var out []*rdoc
	for _, d := range m.docs {
		if d.Coll == coll && !d.Deleted {
			out = append(out, d)
		}
	}
	return out
}

// ref follows a single-valued relation field from either side; nil when there is no live target.
func (m *rmodel) ref(d *rdoc, field string) *rdoc {
	if _, ok := m.rels[d.Coll+"."+field]; ok {
		t := m.byNm[d.Refs[field]]
		if t == nil || t.Deleted {
			return nil
		}
		return t
	}
	if b, ok := m.backs[d.Coll+"."+field]; ok && !b.Many {
		for _, o := range m.live(b.Coll) {
			if o.Refs[b.Field] == d.Name {
				return o
			}
		}
	}
	return nil
}

// many follows a list-valued relation field.
func (m *rmodel) many(d *rdoc, field string) []*rdoc {
	b := m.backs[d.Coll+"."+field]
	var out []*rdoc
	for _, o := range m.live(b.Coll) {
		if o.Refs[b.Field] == d.Name {
			out = append(out, o)
		}
	}
	return out
}

// ---------- filters ----------

type rfilter struct {
	gql  string
	eval func(m *rmodel, d *rdoc) (match, defined bool)
	rel  string // the relation field the condition reaches through ("" = own field)
}

func (f rfilter) via(rel string) rfilter { f.rel = rel; return f }

func firstRel(fs ...rfilter) string {
	for _, f := range fs {
		if f.rel != "" {
			return f.rel
		}
	}
	return ""
}

func cmpInt(op string, v *int64, c int64) (bool, bool) {
	if v == nil {
		return false, false
	}
	switch op {
	case "_eq":
		return *v == c, true
	case "_ne":
		return *v != c, true
	case "_gt":
		return *v > c, true
	case "_lt":
		return *v < c, true
	case "_ge":
		return *v >= c, true
	case "_le":
		return *v <= c, true
	}
	panic(op)
}

func fOwn(field, op string, c int64) rfilter {
	return rfilter{fmt.Sprintf(`%s: {%s: %d}`, field, op, c), func(m *rmodel, d *rdoc) (bool, bool) { return cmpInt(op, d.Ints[field], c) }, ""}
}

// fOne: condition on a field of the single related document.
func fOne(rel, field, op string, c int64) rfilter {
	return rfilter{fmt.Sprintf(`%s: {%s: {%s: %d}}`, rel, field, op, c), func(m *rmodel, d *rdoc) (bool, bool) {
		t := m.ref(d, rel)
		if t == nil {
			return false, false
		}
		return cmpInt(op, t.Ints[field], c)
	}, rel}
}

// fOneName: condition on the name of the single related document.
func fOneName(rel, name string) rfilter {
	return rfilter{fmt.Sprintf(`%s: {name: {_eq: %q}}`, rel, name), func(m *rmodel, d *rdoc) (bool, bool) {
		t := m.ref(d, rel)
		if t == nil {
			return false, true
		}
		return t.Name == name, true
	}, rel}
}

// fTwo: condition two hops away through single-valued relations.
func fTwo(rel1, rel2, field, op string, c int64) rfilter {
	return rfilter{fmt.Sprintf(`%s: {%s: {%s: {%s: %d}}}`, rel1, rel2, field, op, c), func(m *rmodel, d *rdoc) (bool, bool) {
		t := m.ref(d, rel1)
		if t == nil {
			return false, false
		}
		t2 := m.ref(t, rel2)
		if t2 == nil {
			return false, false
		}
		return cmpInt(op, t2.Ints[field], c)
	}, rel1}
}

// fMany: some related document satisfies the condition (only the positive operators are given a
// reference meaning; a parent without children is undefined for the others).
func fMany(rel, field, op string, c int64) rfilter {
	return rfilter{fmt.Sprintf(`%s: {%s: {%s: %d}}`, rel, field, op, c), func(m *rmodel, d *rdoc) (bool, bool) {
		kids := m.many(d, rel)
		if len(kids) == 0 {
			return false, op == "_eq" || op == "_gt" || op == "_lt"
		}
		any, def := false, true
		for _, k := range kids {
			ok, df := cmpInt(op, k.Ints[field], c)
			if !df {
				def = false
			}
			any = any || ok
		}
		if any {
			return true, true
		}
		return false, def
	}, rel}
}

func fAnd(a, b rfilter) rfilter {
	return rfilter{fmt.Sprintf(`_and: [{%s}, {%s}]`, a.gql, b.gql), func(m *rmodel, d *rdoc) (bool, bool) {
		x, dx := a.eval(m, d)
		y, dy := b.eval(m, d)
		if (dx && !x) || (dy && !y) {
			return false, true
		}
		return x && y, dx && dy
	}, firstRel(a, b)}
}

func fOr(a, b rfilter) rfilter {
	return rfilter{fmt.Sprintf(`_or: [{%s}, {%s}]`, a.gql, b.gql), func(m *rmodel, d *rdoc) (bool, bool) {
		x, dx := a.eval(m, d)
		y, dy := b.eval(m, d)
		if (dx && x) || (dy && y) {
			return true, true
		}
		return false, dx && dy
	}, firstRel(a, b)}
}

func fNot(a rfilter) rfilter {
	return rfilter{fmt.Sprintf(`_not: {%s}`, a.gql), func(m *rmodel, d *rdoc) (bool, bool) {
		x, dx := a.eval(m, d)
		return !x, dx
	}, a.rel}
}

func fBoth(a, b rfilter) rfilter { // implicit conjunction: two keys of one filter object
	return rfilter{a.gql + ", " + b.gql, func(m *rmodel, d *rdoc) (bool, bool) {
		x, dx := a.eval(m, d)
		y, dy := b.eval(m, d)
		if (dx && !x) || (dy && !y) {
			return false, true
		}
		return x && y, dx && dy
	}, firstRel(a, b)}
}

// ---------- requests ----------

// rreq is one request: text, and how to compare its answer.
type rreq struct {
	gql   string
	top   string
	shape string
	// want returns, per live document of the top collection (by name): expected presence, the
	// canonical expected row content, whether the reference defines it.
	want func(m *rmodel) (rows map[string]string, undefined map[string]bool, ok bool)
	// keyOf extracts the top-level sort key of a returned row ("" when unordered).
	keyOf func(row map[string]any) string
	// wantKeys: expected sequence of sort keys (nil = not checked by the reference).
	wantKeys func(m *rmodel) ([]string, bool)
	// limit > 0: the answer must be a sub-multiset of that size (or all if fewer).
	limit int
	// rel: the relation the filter or order reaches through (classifies differences)
	rel string
}

func pInt(v *int64) string {
	if v == nil {
		return "null"
	}
	return fmt.Sprint(*v)
}

func sortedNames(ds []*rdoc) string {
	var ns []string
	for _, d := range ds {
		ns = append(ns, d.Name)
	}
	sort.Strings(ns)
	return "[" + strings.Join(ns, " ") + "]"
}

// namesOf renders a nested list result as a sorted name list.
func namesOf(v any) string {
	var ns []string
	switch x := v.(type) {
	case []map[string]any:
		for _, r := range x {
			ns = append(ns, fmt.Sprint(r["name"]))
		}
	case []any:
		for _, r := range x {
			if mm, ok := r.(map[string]any); ok {
				ns = append(ns, fmt.Sprint(mm["name"]))
			}
		}
	case nil:
		return "[]"
	}
	sort.Strings(ns)
	return "[" + strings.Join(ns, " ") + "]"
}

func nameOfOne(v any) string {
	if mm, ok := v.(map[string]any); ok && mm != nil {
		return fmt.Sprint(mm["name"])
	}
	return "-"
}

// rowText renders one returned row: nested lists as sorted name lists, nested single objects by
// name, scalars as they are.
func rowText(row map[string]any) string {
	ks := make([]string, 0, len(row))
	for k := range row {
		ks = append(ks, k)
	}
	sort.Strings(ks)
	var b strings.Builder
	for _, k := range ks {
		if k == "name" {
			continue
		}
		switch v := row[k].(type) {
		case []map[string]any, []any:
			fmt.Fprintf(&b, "%s=%s;", k, namesOf(v))
		case map[string]any:
			fmt.Fprintf(&b, "%s=%s;", k, nameOfOne(v))
		case nil:
			fmt.Fprintf(&b, "%s=-;", k)
		case float64:
			fmt.Fprintf(&b, "%s=%.4f;", k, v)
		default:
			fmt.Fprintf(&b, "%s=%v;", k, v)
		}
	}
	return b.String()
}

// listing: Coll(filter){ name <sel> } with a per-document expected row text.
func listing(coll string, f *rfilter, sel string, row func(m *rmodel, d *rdoc) string, shape string) rreq {
	args := ""
	if f != nil {
		args = fmt.Sprintf("(filter: {%s})", f.gql)
	}
	rel := ""
	if f != nil {
		rel = f.rel
	}
	return rreq{
		gql: fmt.Sprintf(`query { %s%s { name %s } }`, coll, args, sel), top: coll, shape: shape, rel: rel,
		want: func(m *rmodel) (map[string]string, map[string]bool, bool) {
			rows, undef := map[string]string{}, map[string]bool{}
			for _, d := range m.live(coll) {
				if f != nil {
					ok, def := f.eval(m, d)
					if !def {
						undef[d.Name] = true
						continue
					}
					if !ok {
						continue
					}
				}
				rows[d.Name] = row(m, d)
			}
			return rows, undef, true
		},
	}
}

func noRow(m *rmodel, d *rdoc) string { return "" }

type relWorldCfg struct {
	Name string
	SDL  string
}

func c09Configs() []relWorldCfg {
	mk := func(name, pn, pname, kv, kparent, ow, oowner, gz, pg string) relWorldCfg {
		return relWorldCfg{name, fmt.Sprintf(`
type G { name: String  z: Int %s  ps: [P] }
type P { name: String %s  n: Int %s  kids: [K]  one: O  g: G %s  boss: P  minions: [P] }
type K { name: String  v: Int %s  parent: P %s }
type O { name: String  w: Int %s  owner: P @primary %s }`, gz, pname, pn, pg, kv, kparent, ow, oowner)}
	}
	ix := "@index"
	return []relWorldCfg{
		mk("no index", "", "", "", "", "", "", "", ""),
		mk("foreign keys", "", "", "", ix, "", ix, "", ix),
		mk("child fields (K.v, O.w)", "", "", ix, "", ix, "", "", ""),
		mk("parent fields (P.n, P.name, G.z)", ix, ix, "", "", "", "", ix, ""),
		mk("all", ix, ix, ix, ix, ix, ix, ix, ix),
		mk("fk + parent fields", ix, "", "", ix, "", ix, ix, ix),
	}
}

type relNode struct {
	cfg  relWorldCfg
	st   *vkv.Store
	db   *db.DB
	base vkv.Snap
}

// ---------- data sets ----------

type kShape struct {
	v      int64
	parent string
}

type relData struct {
	p1n    *int64
	p1boss string // boss of p1 ("" or p0 or p1 itself)
	p0g    string
	ks     []kShape
	os     []kShape // owner in .parent, w in .v
	extraP int      // further parents p2, p3, ... (n = 2, no other links): the "wide" data sets
}

func (d relData) String() string {
	x := ""
	if d.extraP > 0 {
		x = fmt.Sprintf(" +%d parents", d.extraP)
	}
	return fmt.Sprintf("p1.n=%s p1.boss=%q p0.g=%q K=%v O=%v%s", pInt(d.p1n), d.p1boss, d.p0g, d.ks, d.os, x)
}

func i64p(v int64) *int64 { return &v }

func c09Datasets(maxK int, full bool) []relData {
	var kshapes []kShape
	for _, p := range []string{"", "p0", "p1"} {
		for _, v := range []int64{1, 2} {
			kshapes = append(kshapes, kShape{v, p})
		}
	}
	var ksets [][]kShape
	var rec func(start int, cur []kShape)
	rec = func(start int, cur []kShape) {
		ksets = append(ksets, append([]kShape{}, cur...))
		if len(cur) == maxK {
			return
		}
		for i := start; i < len(kshapes); i++ {
			rec(i, append(cur, kshapes[i]))
		}
	}
	rec(0, nil)
	osets := [][]kShape{
		nil,
		{{1, "p0"}},
		{{1, "p0"}, {2, "p1"}},
		{{2, ""}},
		{{2, "p1"}, {1, ""}},
	}
	var out []relData
	bosses := []string{"", "p0", "p1"}
	i := 0
	for _, n := range []*int64{i64p(1), i64p(2), nil} {
		for _, ks := range ksets {
			for oi, os := range osets {
				// full: the product n x K multisets x one-to-one layouts; otherwise the layouts vary
				// together with the others. Self reference and second hop always vary pairwise.
				if !full && oi != i%len(osets) {
					continue
				}
				g := ""
				if (i+oi)%2 == 1 {
					g = "g0"
				}
				out = append(out, relData{p1n: n, p1boss: bosses[(i+oi)%3], p0g: g, ks: ks, os: os})
			}
			i++
		}
	}
	return out
}

func newRelModel() *rmodel {
	return &rmodel{byNm: map[string]*rdoc{}, ids: map[string]string{},
		rels: map[string]rrel{"K.parent": {"P"}, "O.owner": {"P"}, "P.g": {"G"}, "P.boss": {"P"}},
		backs: map[string]rback{"P.kids": {"K", "parent", true}, "P.one": {"O", "owner", false},
			"G.ps": {"P", "g", true}, "P.minions": {"P", "boss", true}}}
}

func (m *rmodel) add(d *rdoc) { m.docs = append(m.docs, d); m.byNm[d.Name] = d }

// ---------- loading ----------

func (n *relNode) exec(q string) (any, []string) { return world.Exec(context.Background(), n.db, q) }

func docIDOf(data any, sel string) (string, error) {
	rows := world.Rows(data, sel)
	if len(rows) != 1 {
		return "", fmt.Errorf("%s: %d rows", sel, len(rows))
	}
	return fmt.Sprint(rows[0]["_docID"]), nil
}

// loadRel loads the data set into the node; ids[name] receives the document ids.
func (n *relNode) loadRel(d relData, ids map[string]string) error {
	n.st.Restore(n.base)
	create := func(coll, name, body string) error {
		data, errs := n.exec(fmt.Sprintf(`mutation { create_%s(input: {name: %q%s}) { _docID } }`, coll, name, body))
		if len(errs) > 0 {
			return fmt.Errorf("create %s %s: %v", coll, name, errs)
		}
		id, err := docIDOf(data, "create_"+coll)
		if err != nil {
			return err
		}
		if old, ok := ids[name]; ok && old != id {
			return fmt.Errorf("docID of %s differs between configurations: %s vs %s", name, old, id)
		}
		ids[name] = id
		return nil
	}
	ref := func(field, target string) string {
		if target == "" {
			return ""
		}
		return fmt.Sprintf(`, %s: %q`, field, ids[target])
	}
	if err := create("G", "g0", ", z: 1"); err != nil {
		return err
	}
	if err := create("P", "p0", ", n: 1"+ref("g_id", d.p0g)); err != nil {
		return err
	}
	nn := ""
	if d.p1n != nil {
		nn = fmt.Sprintf(", n: %d", *d.p1n)
	}
	boss := d.p1boss
	if boss == "p1" {
		boss = "" // set afterwards (a document cannot reference itself before it exists)
	}
	if err := create("P", "p1", nn+ref("boss_id", boss)+ref("g_id", "g0")); err != nil {
		return err
	}
	if d.p1boss == "p1" {
		if _, errs := n.exec(fmt.Sprintf(`mutation { update_P(docID: %q, input: {boss_id: %q}) { _docID } }`, ids["p1"], ids["p1"])); len(errs) > 0 {
			return fmt.Errorf("self link: %v", errs)
		}
	}
	for x := 0; x < d.extraP; x++ {
		if err := create("P", fmt.Sprintf("p%d", 2+x), ", n: 2"); err != nil {
			return err
		}
	}
	for i, k := range d.ks {
		if err := create("K", fmt.Sprintf("k%d", i), fmt.Sprintf(", v: %d", k.v)+ref("parent_id", k.parent)); err != nil {
			return err
		}
	}
	for i, o := range d.os {
		if err := create("O", fmt.Sprintf("o%d", i), fmt.Sprintf(", w: %d", o.v)+ref("owner_id", o.parent)); err != nil {
			return err
		}
	}
	return nil
}

func modelOf(d relData, ids map[string]string) *rmodel {
	m := newRelModel()
	m.ids = ids
	m.add(&rdoc{Coll: "G", Name: "g0", Ints: map[string]*int64{"z": i64p(1)}, Refs: map[string]string{}})
	m.add(&rdoc{Coll: "P", Name: "p0", Ints: map[string]*int64{"n": i64p(1)}, Refs: map[string]string{"g": d.p0g}})
	m.add(&rdoc{Coll: "P", Name: "p1", Ints: map[string]*int64{"n": d.p1n}, Refs: map[string]string{"boss": d.p1boss, "g": "g0"}})
	for x := 0; x < d.extraP; x++ {
		m.add(&rdoc{Coll: "P", Name: fmt.Sprintf("p%d", 2+x), Ints: map[string]*int64{"n": i64p(2)}, Refs: map[string]string{}})
	}
	for i, k := range d.ks {
		m.add(&rdoc{Coll: "K", Name: fmt.Sprintf("k%d", i), Ints: map[string]*int64{"v": i64p(k.v)}, Refs: map[string]string{"parent": k.parent}})
	}
	for i, o := range d.os {
		m.add(&rdoc{Coll: "O", Name: fmt.Sprintf("o%d", i), Ints: map[string]*int64{"w": i64p(o.v)}, Refs: map[string]string{"owner": o.parent}})
	}
	return m
}

// ---------- history steps ----------

type relStep struct {
	Name string
	// applicable on the model?
	ok func(m *rmodel) bool
	// the mutation text, given ids
	gql func(m *rmodel) string
	// mustReject: the reference says the write would give a one-to-one link a second holder.
	mustReject func(m *rmodel) bool
	apply      func(m *rmodel)
}

func relink(coll, doc, field, target string) relStep {
	return relStep{
		Name: fmt.Sprintf("%s.%s:=%s", doc, field, orNone(target)),
		ok: func(m *rmodel) bool {
			d := m.byNm[doc]
			if d == nil || d.Deleted || d.Refs[field] == target {
				return false
			}
			if target != "" && m.byNm[target] == nil {
				return false
			}
			return true
		},
		gql: func(m *rmodel) string {
			v := "null"
			if target != "" {
				v = fmt.Sprintf("%q", m.ids[target])
			}
			return fmt.Sprintf(`mutation { update_%s(docID: %q, input: {%s_id: %s}) { _docID } }`, coll, m.ids[doc], field, v)
		},
		mustReject: func(m *rmodel) bool {
			if coll != "O" || target == "" {
				return false
			}
			for _, o := range m.live("O") {
				if o.Name != doc && o.Refs[field] == target {
					return true
				}
			}
			return false
		},
		apply: func(m *rmodel) { m.byNm[doc].Refs[field] = target },
	}
}

func orNone(s string) string {
	if s == "" {
		return "none"
	}
	return s
}

func delStep(coll, doc string) relStep {
	return relStep{
		Name: "delete " + doc,
		ok:   func(m *rmodel) bool { d := m.byNm[doc]; return d != nil && !d.Deleted },
		gql: func(m *rmodel) string {
			return fmt.Sprintf(`mutation { delete_%s(docID: %q) { _docID } }`, coll, m.ids[doc])
		},
		mustReject: func(m *rmodel) bool { return false },
		apply:      func(m *rmodel) { m.byNm[doc].Deleted = true },
	}
}

// createO: a further O document claiming owner target (name ox).
func createO(target string) relStep {
	return relStep{
		Name: "create ox owner=" + orNone(target),
		ok:   func(m *rmodel) bool { return m.byNm["ox"] == nil },
		gql: func(m *rmodel) string {
			return fmt.Sprintf(`mutation { create_O(input: {name: "ox", w: 2, owner_id: %q}) { _docID } }`, m.ids[target])
		},
		mustReject: func(m *rmodel) bool {
			for _, o := range m.live("O") {
				if o.Refs["owner"] == target {
					return true
				}
			}
			return false
		},
		apply: func(m *rmodel) {
			m.add(&rdoc{Coll: "O", Name: "ox", Ints: map[string]*int64{"w": i64p(2)}, Refs: map[string]string{"owner": target}})
		},
	}
}

func c09Steps() []relStep {
	return []relStep{
		relink("K", "k0", "parent", ""), relink("K", "k0", "parent", "p0"), relink("K", "k0", "parent", "p1"),
		delStep("K", "k0"), delStep("P", "p0"), delStep("O", "o0"),
		relink("O", "o0", "owner", ""), relink("O", "o0", "owner", "p0"), relink("O", "o0", "owner", "p1"),
		relink("O", "o1", "owner", "p0"),
		createO("p0"), createO("p1"),
		relink("P", "p0", "boss", "p1"), relink("P", "p1", "boss", ""), relink("P", "p1", "g", ""),
	}
}

// ---------- the request grammar ----------

func c09Requests(m0 *rmodel) []rreq {
	var out []rreq
	ops := []string{"_eq", "_ne", "_gt", "_lt"}
	kids := func(m *rmodel, d *rdoc) string { return "kids=" + sortedNames(m.many(d, "kids")) + ";" }
	parent := func(m *rmodel, d *rdoc) string {
		t := m.ref(d, "parent")
		if t == nil {
			return "parent=-;"
		}
		return "parent=" + t.Name + ";"
	}
	// R1/R2: both sides, unfiltered, and every relation of the world
	out = append(out, listing("P", nil, "kids { name }", kids, "P{kids}"))
	out = append(out, listing("K", nil, "parent { name }", parent, "K{parent}"))
	out = append(out, listing("P", nil, "one { name }", func(m *rmodel, d *rdoc) string {
		if t := m.ref(d, "one"); t != nil {
			return "one=" + t.Name + ";"
		}
		return "one=-;"
	}, "P{one}"))
	out = append(out, listing("O", nil, "owner { name }", func(m *rmodel, d *rdoc) string {
		if t := m.ref(d, "owner"); t != nil {
			return "owner=" + t.Name + ";"
		}
		return "owner=-;"
	}, "O{owner}"))
	out = append(out, listing("P", nil, "boss { name } minions { name }", func(m *rmodel, d *rdoc) string {
		b := "-"
		if t := m.ref(d, "boss"); t != nil {
			b = t.Name
		}
		return "boss=" + b + ";minions=" + sortedNames(m.many(d, "minions")) + ";"
	}, "P{boss minions}"))
	out = append(out, listing("G", nil, "ps { name kids { name } }", func(m *rmodel, d *rdoc) string {
		return "ps=" + sortedNames(m.many(d, "ps")) + ";"
	}, "G{ps{kids}}"))
	out = append(out, listing("K", nil, "parent { name g { name } }", parent, "K{parent{g}}"))
	// R3: by foreign key value
	for _, p := range []string{"p0", "p1"} {
		p := p
		for _, fk := range []struct{ coll, field string }{{"K", "parent"}, {"O", "owner"}, {"P", "boss"}} {
			fk := fk
			f := rfilter{fmt.Sprintf(`%s_id: {_eq: %q}`, fk.field, m0.ids[p]), func(m *rmodel, d *rdoc) (bool, bool) { return d.Refs[fk.field] == p, true }, ""}
			out = append(out, listing(fk.coll, &f, "", noRow, fk.coll+"(fk=id)"))
		}
	}
	fnull := rfilter{`parent_id: {_eq: null}`, func(m *rmodel, d *rdoc) (bool, bool) { return d.Refs["parent"] == "", true }, ""}
	out = append(out, listing("K", &fnull, "", noRow, "K(fk=null)"))
	// R4: filter through the single side / R5 through the many side / 1-1 from both sides / two hops
	for _, op := range ops {
		for _, c := range []int64{1, 2} {
			f := fOne("parent", "n", op, c)
			out = append(out, listing("K", &f, "parent { name }", parent, "K(parent.n)"))
			f2 := fMany("kids", "v", op, c)
			out = append(out, listing("P", &f2, "kids { name }", kids, "P(kids.v)"))
			f3 := fOne("owner", "n", op, c)
			out = append(out, listing("O", &f3, "", noRow, "O(owner.n)"))
			f4 := fOne("one", "w", op, c)
			out = append(out, listing("P", &f4, "", noRow, "P(one.w)"))
			f5 := fOne("boss", "n", op, c)
			out = append(out, listing("P", &f5, "", noRow, "P(boss.n)"))
			f6 := fMany("minions", "n", op, c)
			out = append(out, listing("P", &f6, "", noRow, "P(minions.n)"))
			if c == 1 {
				f7 := fTwo("parent", "g", "z", op, c)
				out = append(out, listing("K", &f7, "", noRow, "K(parent.g.z)"))
				f8 := fMany("ps", "n", op, c)
				out = append(out, listing("G", &f8, "", noRow, "G(ps.n)"))
			}
			// combinations with an own-field condition
			own := fOwn("v", "_eq", 1)
			for _, comb := range []rfilter{fBoth(f, own), fAnd(f, own), fOr(f, own), fNot(f)} {
				comb := comb
				out = append(out, listing("K", &comb, "", noRow, "K(comb parent.n, v)"))
			}
			pown := fOwn("n", "_eq", 1)
			for _, comb := range []rfilter{fBoth(f2, pown), fOr(f2, pown), fNot(f2)} {
				comb := comb
				out = append(out, listing("P", &comb, "", noRow, "P(comb kids.v, n)"))
			}
		}
	}
	for _, p := range []string{"p0", "p1"} {
		f := fOneName("parent", p)
		out = append(out, listing("K", &f, "", noRow, "K(parent.name)"))
		f2 := fOneName("owner", p)
		out = append(out, listing("O", &f2, "", noRow, "O(owner.name)"))
	}
	// R6: aggregates over the many side, with and without inner filter
	agg := func(m *rmodel, d *rdoc) string {
		ks := m.many(d, "kids")
		var sum, c1 int64
		for _, k := range ks {
			sum += *k.Ints["v"]
			if *k.Ints["v"] == 1 {
				c1++
			}
		}
		return fmt.Sprintf("c=%d;c1=%d;s=%d;", len(ks), c1, sum)
	}
	out = append(out, listing("P", nil, `c: _count(kids: {}) c1: _count(kids: {filter: {v: {_eq: 1}}}) s: _sum(kids: {field: v})`, agg, "P{_count _sum kids}"))
	mm := func(m *rmodel, d *rdoc) string {
		ks := m.many(d, "kids")
		if len(ks) == 0 {
			return "" // min/max/avg of nothing: not pinned by the reference
		}
		mn, mx := int64(99), int64(-99)
		var sum int64
		for _, k := range ks {
			v := *k.Ints["v"]
			sum += v
			if v < mn {
				mn = v
			}
			if v > mx {
				mx = v
			}
		}
		return fmt.Sprintf("a=%.4f;mn=%d;mx=%d;", float64(sum)/float64(len(ks)), mn, mx)
	}
	r := listing("P", nil, `mn: _min(kids: {field: v}) mx: _max(kids: {field: v}) a: _avg(kids: {field: v})`, mm, "P{_min _max _avg kids}")
	out = append(out, r)
	out = append(out, listing("G", nil, `c: _count(ps: {})`, func(m *rmodel, d *rdoc) string { return fmt.Sprintf("c=%d;", len(m.many(d, "ps"))) }, "G{_count ps}"))
	// aggregate + relation filter on the parent
	for _, c := range []int64{1, 2} {
		f := fMany("kids", "v", "_eq", c)
		out = append(out, listing("P", &f, `c: _count(kids: {})`, func(m *rmodel, d *rdoc) string { return fmt.Sprintf("c=%d;", len(m.many(d, "kids"))) }, "P(kids.v){_count}"))
	}
	// R8: child sub-selection with its own filter
	for _, c := range []int64{1, 2} {
		c := c
		out = append(out, listing("P", nil, fmt.Sprintf(`kids(filter: {v: {_eq: %d}}) { name }`, c), func(m *rmodel, d *rdoc) string {
			var ks []*rdoc
			for _, k := range m.many(d, "kids") {
				if *k.Ints["v"] == c {
					ks = append(ks, k)
				}
			}
			return "kids=" + sortedNames(ks) + ";"
		}, "P{kids(filter)}"))
	}
	// R7: ordering through the relation: the sequence of sort keys
	for _, dir := range []string{"ASC", "DESC"} {
		dir := dir
		ord := listing("K", nil, "parent { n }", nil, "K(order parent.n)")
		ord.gql = fmt.Sprintf(`query { K(order: {parent: {n: %s}}) { name parent { n } } }`, dir)
		ord.want = nil
		ord.rel = "parent"
		ord.keyOf = func(row map[string]any) string {
			if p, ok := row["parent"].(map[string]any); ok && p != nil && p["n"] != nil {
				return fmt.Sprint(p["n"])
			}
			return "null"
		}
		ord.wantKeys = func(m *rmodel) ([]string, bool) {
			var keys []string
			for _, k := range m.live("K") {
				t := m.ref(k, "parent")
				if t == nil || t.Ints["n"] == nil {
					keys = append(keys, "null")
				} else {
					keys = append(keys, fmt.Sprint(*t.Ints["n"]))
				}
			}
			sort.Slice(keys, func(i, j int) bool { // null first ascending
				if keys[i] == keys[j] {
					return false
				}
				less := keys[i] == "null" || (keys[j] != "null" && keys[i] < keys[j])
				if dir == "DESC" {
					return !less
				}
				return less
			})
			return keys, true
		}
		out = append(out, ord)
		// order by own field with a relation selected (join must not disturb the order)
		o2 := listing("K", nil, "v parent { name }", nil, "K(order v){parent}")
		o2.gql = fmt.Sprintf(`query { K(order: {v: %s}) { name v parent { name } } }`, dir)
		o2.want = nil
		o2.keyOf = func(row map[string]any) string { return fmt.Sprint(row["v"]) }
		o2.wantKeys = func(m *rmodel) ([]string, bool) {
			var keys []string
			for _, k := range m.live("K") {
				keys = append(keys, fmt.Sprint(*k.Ints["v"]))
			}
			sort.Strings(keys)
			if dir == "DESC" {
				for i, j := 0, len(keys)-1; i < j; i, j = i+1, j-1 {
					keys[i], keys[j] = keys[j], keys[i]
				}
			}
			return keys, true
		}
		out = append(out, o2)
	}
	// limit on a relation-filtered listing: a sub-multiset of the right size
	for _, c := range []int64{1, 2} {
		f := fOne("parent", "n", "_eq", c)
		l := listing("K", &f, "", noRow, "K(parent.n, limit)")
		l.gql = fmt.Sprintf(`query { K(filter: {%s}, limit: 1) { name } }`, f.gql)
		l.limit = 1
		out = append(out, l)
		f2 := fMany("kids", "v", "_eq", c)
		l2 := listing("P", &f2, "", noRow, "P(kids.v, limit)")
		l2.gql = fmt.Sprintf(`query { P(filter: {%s}, limit: 1) { name } }`, f2.gql)
		l2.limit = 1
		out = append(out, l2)
	}
	return out
}

// ---------- the run ----------

type c09stats struct {
	datasets, states, requests, refCompared, refUndefined, crossCompared, steps, rejected, spurious int64
	shapes                                                                                      sync.Map
	outcomes                                                                                    sync.Map
}

func runC09(args []string) int {
	r := rep.New("C09", "exploration")
	thorough := rep.Tier() == "thorough"
	if len(args) >= 2 && args[0] == "replay" {
		return c09ReplayCmd(r, args[1])
	}
	cfgs := c09Configs()
	type job struct {
		data  relData
		depth int
	}
	var jobs []job
	if thorough {
		for _, d := range c09Datasets(2, true) {
			jobs = append(jobs, job{d, 1})
		}
		for _, d := range c09Datasets(3, false) {
			if len(d.ks) == 3 {
				jobs = append(jobs, job{d, 1})
			}
		}
		for _, d := range c09Datasets(2, false) {
			jobs = append(jobs, job{d, 2})
		}
	} else {
		for _, d := range c09Datasets(2, false) {
			jobs = append(jobs, job{d, 1})
		}
	}
	if thorough {
		for _, d := range c09WideDatasets(4, 6) {
			jobs = append(jobs, job{d, 0})
		}
	} else {
		for _, d := range c09WideDatasets(3, 6) {
			jobs = append(jobs, job{d, 0})
		}
		for _, d := range c09WideDatasets(4, 5) {
			jobs = append(jobs, job{d, 0})
		}
	}
	if mx, _ := strconv.Atoi(os.Getenv("VERIF_C09_MAX")); mx > 0 && mx < len(jobs) { // development aid
		stride := len(jobs) / mx
		var sub []job
		for i := 0; i < len(jobs); i += stride {
			sub = append(sub, jobs[i])
		}
		jobs = sub
		r.Coverage["development_subset"] = len(jobs)
	}
	st := &c09stats{}
	ch := make(chan job)
	var wg sync.WaitGroup
	nw := runtime.NumCPU()
	var herr atomic.Value
	for w := 0; w < nw; w++ {
		wg.Add(1)
		go func() {
			defer wg.Done()
			nodes, err := newRelNodes(cfgs)
			if err != nil {
				herr.Store(err)
				for range ch {
				}
				return
			}
			for j := range ch {
				if err := c09Dataset(r, st, nodes, j.data, j.depth); err != nil {
					herr.Store(err)
				}
			}
			for _, n := range nodes {
				n.db.Close()
			}
		}()
	}
	for _, j := range jobs {
		ch <- j
	}
	close(ch)
	wg.Wait()
	if e := herr.Load(); e != nil {
		rep.HarnessError("C09: %v", e)
	}
	c09TxnPair(r, st)
	nshapes, nout := 0, 0
	st.shapes.Range(func(k, v any) bool { nshapes++; return true })
	st.outcomes.Range(func(k, v any) bool { nout++; return true })
	r.Coverage["evaluations"] = st.requests
	r.Coverage["distinct_nontrivial"] = nout
	r.Coverage["rule"] = "every data set (p1.n in {1,2,null} x self link x second hop x multisets of <=k K documents over v in {1,2} x parent in {none,p0,p1} x 5 one-to-one layouts) x every history of <=d steps over 15 link/unlink/delete/create steps x every request of the relation grammar x 6 index configurations; distinct = distinct (request shape, canonical answer) pairs with a non-empty answer"
	r.Coverage["wide_datasets_many_parents"] = "3 parents x 6 children and 4 parents x 5 children (thorough: 4 x 6): every assignment of children to parents, 5 request shapes"
	r.Coverage["datasets"] = st.datasets
	r.Coverage["states_after_histories"] = st.states
	r.Coverage["history_steps_executed"] = st.steps
	r.Coverage["one_to_one_writes_rejected_as_required"] = st.rejected
	r.Coverage["spurious_rejections_counted_not_alarmed"] = st.spurious
	r.Coverage["requests_compared_with_reference"] = st.refCompared
	r.Coverage["requests_with_some_undefined_document"] = st.refUndefined
	r.Coverage["cross_configuration_comparisons"] = st.crossCompared
	r.Coverage["request_shapes"] = nshapes
	r.Coverage["index_configurations"] = len(cfgs)
	r.Coverage["exhaustive"] = true
	r.Assumptions = []string{
		"the reference evaluator speaks only where a related document exists and the compared value is non-null; elsewhere all configurations must agree with the configuration without indexes",
		"document alphabets: 1 G, 2 P, <=3 K, <=2(+1) O; values n,v,w in {1,2,null}",
	}
	return r.Finish()
}

func newRelNodes(cfgs []relWorldCfg) ([]*relNode, error) {
	var nodes []*relNode
	for _, c := range cfgs {
		st := vkv.NewStore()
		d, err := world.NewDB(context.Background(), st)
		if err != nil {
			return nil, err
		}
		if _, err := d.AddSchema(context.Background(), c.SDL); err != nil {
			return nil, fmt.Errorf("schema %s: %w", c.Name, err)
		}
		nodes = append(nodes, &relNode{cfg: c, st: st, db: d, base: st.Snapshot()})
	}
	return nodes, nil
}

type c09Replay struct {
	Data    relDataJSON `json:"data"`
	Steps   []string    `json:"steps"`
	Request string      `json:"request"`
	Config  string      `json:"config"`
	Want    string      `json:"want"`
	Got     string      `json:"got"`
}

type relDataJSON struct {
	P1N    *int64   `json:"p1n"`
	P1Boss string   `json:"p1boss"`
	P0G    string   `json:"p0g"`
	KV     []int64  `json:"kv"`
	KP     []string `json:"kparent"`
	OW     []int64  `json:"ow"`
	OP     []string `json:"oowner"`
	ExtraP int      `json:"extra_parents"`
}

func (d relData) json() relDataJSON {
	j := relDataJSON{P1N: d.p1n, P1Boss: d.p1boss, P0G: d.p0g, ExtraP: d.extraP}
	for _, k := range d.ks {
		j.KV = append(j.KV, k.v)
		j.KP = append(j.KP, k.parent)
	}
	for _, o := range d.os {
		j.OW = append(j.OW, o.v)
		j.OP = append(j.OP, o.parent)
	}
	return j
}

func (j relDataJSON) data() relData {
	d := relData{p1n: j.P1N, p1boss: j.P1Boss, p0g: j.P0G, extraP: j.ExtraP}
	for i := range j.KV {
		d.ks = append(d.ks, kShape{j.KV[i], j.KP[i]})
	}
	for i := range j.OW {
		d.os = append(d.os, kShape{j.OW[i], j.OP[i]})
	}
	return d
}

// c09Dataset loads one data set everywhere and explores the histories depth-first (snapshots).
// c09WideDatasets: nP parents and nK children, every assignment of children to parents (the last
// child has v = 2, the others v = 1): many parents with interleaved children in index order.
func c09WideDatasets(nP, nK int) []relData {
	var out []relData
	total := 1
	for i := 0; i < nK; i++ {
		total *= nP
	}
	for a := 0; a < total; a++ {
		d := relData{p1n: i64p(1), extraP: nP - 2}
		x := a
		for k := 0; k < nK; k++ {
			v := int64(1)
			if k == nK-1 {
				v = 2
			}
			d.ks = append(d.ks, kShape{v, fmt.Sprintf("p%d", x%nP)})
			x /= nP
		}
		out = append(out, d)
	}
	return out
}

var c09WideShapes = map[string]bool{"P{kids}": true, "P(kids.v)": true, "K(parent.n)": true, "P{_count _sum kids}": true, "K(order parent.n)": true}

func c09Dataset(r *rep.Run, st *c09stats, nodes []*relNode, data relData, depth int) error {
	ids := map[string]string{}
	for _, n := range nodes {
		if err := n.loadRel(data, ids); err != nil {
			return fmt.Errorf("%s: %s: %w", n.cfg.Name, data, err)
		}
	}
	atomic.AddInt64(&st.datasets, 1)
	m := modelOf(data, ids)
	reqs := c09Requests(m)
	if data.extraP > 0 {
		var sub []rreq
		for _, q := range reqs {
			if c09WideShapes[q.shape] {
				sub = append(sub, q)
			}
		}
		reqs = sub
	}
	steps := c09Steps()
	var rec func(m *rmodel, hist []string, left int)
	rec = func(m *rmodel, hist []string, left int) {
		atomic.AddInt64(&st.states, 1)
		c09CheckState(r, st, nodes, data, hist, m, reqs)
		if left == 0 {
			return
		}
		snaps := make([]vkv.Snap, len(nodes))
		for i, n := range nodes {
			snaps[i] = n.st.Snapshot()
		}
		for _, s := range steps {
			if !s.ok(m) {
				continue
			}
			atomic.AddInt64(&st.steps, 1)
			q := s.gql(m)
			must := s.mustReject(m)
			accepted := -1
			for i, n := range nodes {
				_, errs := n.exec(q)
				a := 0
				if len(errs) == 0 {
					a = 1
				}
				if accepted == -1 {
					accepted = a
				} else if accepted != a {
					r.Violation(rep.Violation{Fingerprint: "C09:write-outcome-differs-between-index-configurations:" + stepClass(s.Name),
						Summary: fmt.Sprintf("data %s history %v step %s: accepted by %q, not by %q (%v)", data, hist, s.Name, nodes[0].cfg.Name, n.cfg.Name, errs),
						Replay:  c09Replay{Data: data.json(), Steps: append(append([]string{}, hist...), s.Name), Config: n.cfg.Name}})
				}
				_ = i
			}
			nm := m.clone()
			if accepted == 1 {
				if must {
					r.Violation(rep.Violation{Fingerprint: "C09:one-to-one-second-holder-accepted:" + stepClass(s.Name),
						Summary: fmt.Sprintf("data %s history %v: step %s accepted although another live document already holds the one-to-one link", data, hist, s.Name),
						Replay:  c09Replay{Data: data.json(), Steps: append(append([]string{}, hist...), s.Name)}})
				}
				s.apply(nm)
			} else {
				if must {
					atomic.AddInt64(&st.rejected, 1)
				} else {
					atomic.AddInt64(&st.spurious, 1)
				}
			}
			rec(nm, append(append([]string{}, hist...), s.Name), left-1)
			for i, n := range nodes {
				n.st.Restore(snaps[i])
			}
		}
	}
	rec(m, nil, depth)
	return nil
}

func stepClass(name string) string {
	if i := strings.IndexAny(name, ":= "); i > 0 {
		return name[:i]
	}
	return name
}

func c09CheckState(r *rep.Run, st *c09stats, nodes []*relNode, data relData, hist []string, m *rmodel, reqs []rreq) {
	// raw one-to-one invariant
	for _, n := range nodes[:1] {
		d, _ := n.exec(`query { O { name owner_id } }`)
		seen := map[string]string{}
		for _, row := range world.Rows(d, "O") {
			if row["owner_id"] == nil {
				continue
			}
			id := fmt.Sprint(row["owner_id"])
			if other, ok := seen[id]; ok {
				r.Violation(rep.Violation{Fingerprint: "C09:one-to-one-two-holders",
					Summary: fmt.Sprintf("data %s history %v: %s and %v both hold owner %s", data, hist, other, row["name"], id),
					Replay:  c09Replay{Data: data.json(), Steps: hist}})
			}
			seen[id] = fmt.Sprint(row["name"])
		}
	}
	for _, q := range reqs {
		var base string
		var baseRows []map[string]any
		for ci, n := range nodes {
			atomic.AddInt64(&st.requests, 1)
			d, errs := n.exec(q.gql)
			if len(errs) > 0 {
				r.Violation(rep.Violation{Fingerprint: "C09:request-error:" + q.shape,
					Summary: fmt.Sprintf("data %s history %v config %q: %s -> %v", data, hist, n.cfg.Name, q.gql, errs),
					Replay:  c09Replay{Data: data.json(), Steps: hist, Request: q.gql, Config: n.cfg.Name}})
				continue
			}
			rows := world.Rows(d, q.top)
			got, keys := c09Canon(rows, q)
			if ci == 0 {
				baseRows = rows
				base = got + "|" + strings.Join(keys, ",")
				if len(rows) > 0 {
					if _, seen := st.outcomes.LoadOrStore(q.shape+"#"+base, true); !seen && len(hist) > 0 && q.rel != "" {
						r.Sample(map[string]any{"data": data.String(), "history": hist, "request": q.gql, "answer_on_every_configuration": world.Canon(d)})
					}
				}
				st.shapes.LoadOrStore(q.shape, true)
				c09Reference(r, st, n, data, hist, m, q, rows, keys)
				continue
			}
			atomic.AddInt64(&st.crossCompared, 1)
			cur := got + "|" + strings.Join(keys, ",")
			if q.limit > 0 {
				// only the size is determined; membership is checked against the reference below
				if len(rows) != strings.Count(base, "\n") {
					cur, base = fmt.Sprint(len(rows)), fmt.Sprint(strings.Count(base, "\n"))
				} else {
					c09Reference(r, st, n, data, hist, m, q, rows, keys)
					continue
				}
			}
			if cur != base {
				kind := c09DiffKind(m, q, baseRows, rows)
				fp := "C09:index-configuration-changes-answer:" + kind + ":" + q.shape
				if kind == "rows-without-related-document-lost" {
					switch {
					case q.keyOf != nil:
						fp = "C09:join-inverted-by-order-drops-documents-without-related-document"
					case strings.Contains(q.gql, "_ne") || strings.Contains(q.gql, "_not"):
						fp = "C09:join-inverted-by-filter-drops-documents-without-related-document-for-null-matching-condition"
					}
				}
				r.Violation(rep.Violation{Fingerprint: fp,
					Summary: fmt.Sprintf("data %s history %v: %s\n  %q: %s\n  %q: %s", data, hist, q.gql, nodes[0].cfg.Name, base, n.cfg.Name, cur),
					Replay:  c09Replay{Data: data.json(), Steps: hist, Request: q.gql, Config: n.cfg.Name, Want: base, Got: cur}})
			}
		}
	}
}

// c09DiffKind classifies how the answer of an indexed configuration differs from the plain one.
func c09DiffKind(m *rmodel, q rreq, base, cur []map[string]any) string {
	bn, cn := map[string]string{}, map[string]string{}
	for _, r := range base {
		bn[fmt.Sprint(r["name"])] = rowText(r)
	}
	for _, r := range cur {
		cn[fmt.Sprint(r["name"])] = rowText(r)
	}
	var lost, extra, changed []string
	for n := range bn {
		if _, ok := cn[n]; !ok {
			lost = append(lost, n)
		} else if bn[n] != cn[n] {
			changed = append(changed, n)
		}
	}
	for n := range cn {
		if _, ok := bn[n]; !ok {
			extra = append(extra, n)
		}
	}
	unrelated := func(name string) bool {
		d := m.byNm[name]
		if d == nil || q.rel == "" {
			return false
		}
		if b, ok := m.backs[d.Coll+"."+q.rel]; ok && b.Many {
			return len(m.many(d, q.rel)) == 0
		}
		return m.ref(d, q.rel) == nil
	}
	switch {
	case len(cn) != len(cur) || len(bn) != len(base):
		return "duplicate-rows"
	case len(extra) == 0 && len(changed) == 0 && len(lost) > 0:
		all := true
		for _, n := range lost {
			all = all && unrelated(n)
		}
		if all {
			return "rows-without-related-document-lost"
		}
		return "rows-lost"
	case len(lost) == 0 && len(changed) == 0 && len(extra) > 0:
		return "extra-rows"
	case len(lost) == 0 && len(extra) == 0 && len(changed) > 0:
		return "row-content"
	case len(lost) == 0 && len(extra) == 0:
		return "order"
	}
	return "rows-differ"
}

// c09Canon renders an answer: one line per row sorted (multiset) and the sequence of sort keys.
func c09Canon(rows []map[string]any, q rreq) (string, []string) {
	var lines, keys []string
	for _, row := range rows {
		lines = append(lines, fmt.Sprint(row["name"])+":"+rowText(row)+"\n")
		if q.keyOf != nil {
			keys = append(keys, q.keyOf(row))
		}
	}
	sort.Strings(lines)
	return strings.Join(lines, ""), keys
}

func c09Reference(r *rep.Run, st *c09stats, n *relNode, data relData, hist []string, m *rmodel, q rreq, rows []map[string]any, keys []string) {
	viol := func(kind, want, got string) {
		r.Violation(rep.Violation{Fingerprint: "C09:reference-" + kind + ":" + q.shape,
			Summary: fmt.Sprintf("data %s history %v config %q: %s\n  want %s\n  got  %s", data, hist, n.cfg.Name, q.gql, want, got),
			Replay:  c09Replay{Data: data.json(), Steps: hist, Request: q.gql, Config: n.cfg.Name, Want: want, Got: got}})
	}
	if q.wantKeys != nil {
		if want, ok := q.wantKeys(m); ok {
			atomic.AddInt64(&st.refCompared, 1)
			if strings.Join(want, ",") != strings.Join(keys, ",") {
				viol("order", strings.Join(want, ","), strings.Join(keys, ","))
			}
		}
	}
	if q.want == nil {
		return
	}
	want, undef, ok := q.want(m)
	if !ok {
		return
	}
	if len(undef) > 0 {
		atomic.AddInt64(&st.refUndefined, 1)
	}
	atomic.AddInt64(&st.refCompared, 1)
	got := map[string]string{}
	for _, row := range rows {
		nm := fmt.Sprint(row["name"])
		if _, dup := got[nm]; dup {
			viol("duplicate-row", "each document once", nm+" twice")
		}
		got[nm] = rowText(row)
	}
	if q.limit > 0 {
		// every returned document must be wanted (or undefined); the size must be min(limit, |wanted|) when nothing is undefined
		for nm := range got {
			if _, w := want[nm]; !w && !undef[nm] {
				viol("limit-member", fmt.Sprint(keysOf(want)), nm)
			}
		}
		if len(undef) == 0 {
			exp := len(want)
			if exp > q.limit {
				exp = q.limit
			}
			if len(got) != exp {
				viol("limit-size", fmt.Sprint(exp), fmt.Sprint(len(got)))
			}
		}
		return
	}
	for nm, w := range want {
		g, okg := got[nm]
		if !okg {
			viol("missing", nm+" present", "absent; got "+fmt.Sprint(keysOf(got)))
			continue
		}
		if w != "" && w != g {
			viol("row", nm+":"+w, nm+":"+g)
		}
	}
	for nm := range got {
		if _, w := want[nm]; !w && !undef[nm] {
			viol("extra", fmt.Sprint(keysOf(want)), nm+" returned")
		}
	}
}

func keysOf(m map[string]string) []string {
	var ks []string
	for k := range m {
		ks = append(ks, k)
	}
	sort.Strings(ks)
	return ks
}

// c09TxnPair: two explicit transactions that each give p0 a (different) one-to-one holder, in every
// interleaving of their steps; at most one may commit.
func c09TxnPair(r *rep.Run, st *c09stats) {
	ctx := context.Background()
	cfgs := c09Configs()
	for _, cfg := range []relWorldCfg{cfgs[0], cfgs[1]} {
		// steps: A1 = A creates, A2 = A commits, B1, B2; all interleavings keeping per-txn order
		for _, order := range [][]string{{"A1", "A2", "B1", "B2"}, {"A1", "B1", "A2", "B2"}, {"A1", "B1", "B2", "A2"}, {"B1", "A1", "A2", "B2"}, {"B1", "A1", "B2", "A2"}, {"B1", "B2", "A1", "A2"}} {
			store, err := world.NewBadger(ctx)
			if err != nil {
				rep.HarnessError("badger: %v", err)
			}
			d, err := world.NewDB(ctx, store)
			if err != nil {
				rep.HarnessError("db: %v", err)
			}
			if _, err := d.AddSchema(ctx, cfg.SDL); err != nil {
				rep.HarnessError("schema: %v", err)
			}
			data, errs := world.Exec(ctx, d, `mutation { create_P(input: {name: "p0", n: 1}) { _docID } }`)
			if len(errs) > 0 {
				rep.HarnessError("create: %v", errs)
			}
			pid, _ := docIDOf(data, "create_P")
			txs := map[byte]interface {
				Commit(context.Context) error
				Discard(context.Context)
			}{}
			ta, _ := d.NewTxn(ctx, false)
			tb, _ := d.NewTxn(ctx, false)
			txs['A'], txs['B'] = ta, tb
			committed := 0
			for _, s := range order {
				atomic.AddInt64(&st.requests, 1)
				var tx = ta
				if s[0] == 'B' {
					tx = tb
				}
				if s[1] == '1' {
					res := tx.ExecRequest(ctx, fmt.Sprintf(`mutation { create_O(input: {name: "o%c", w: 1, owner_id: %q}) { _docID } }`, s[0], pid))
					_ = res
				} else {
					if err := tx.Commit(ctx); err == nil {
						committed++
					}
				}
			}
			dd, _ := world.Exec(ctx, d, fmt.Sprintf(`query { O(filter: {owner_id: {_eq: %q}}) { name } }`, pid))
			holders := len(world.Rows(dd, "O"))
			atomic.AddInt64(&st.states, 1)
			if holders > 1 {
				r.Violation(rep.Violation{Fingerprint: "C09:one-to-one-two-holders-concurrent-transactions",
					Summary: fmt.Sprintf("config %q, interleaving %v: %d transactions committed, %d documents hold the one-to-one link to p0", cfg.Name, order, committed, holders),
					Replay:  map[string]any{"kind": "txnpair", "config": cfg.Name, "order": order}})
			}
			d.Close()
			store.Close()
		}
	}
}

func c09ReplayCmd(r *rep.Run, path string) int {
	b, err := os.ReadFile(path)
	if err != nil {
		rep.HarnessError("replay: %v", err)
	}
	var f struct {
		Replay c09Replay `json:"replay"`
	}
	if err := json.Unmarshal(b, &f); err != nil {
		rep.HarnessError("replay: %v", err)
	}
	nodes, err := newRelNodes(c09Configs())
	if err != nil {
		rep.HarnessError("replay: %v", err)
	}
	data := f.Replay.Data.data()
	ids := map[string]string{}
	for _, n := range nodes {
		if err := n.loadRel(data, ids); err != nil {
			rep.HarnessError("replay: %v", err)
		}
	}
	m := modelOf(data, ids)
	fmt.Println("data:", data)
	for _, name := range f.Replay.Steps {
		for _, s := range c09Steps() {
			if s.Name != name {
				continue
			}
			q := s.gql(m)
			for _, n := range nodes {
				_, errs := n.exec(q)
				fmt.Printf("step %s on %q: errs=%v\n", name, n.cfg.Name, errs)
				if n == nodes[0] && len(errs) == 0 {
					s.apply(m)
				}
			}
		}
	}
	if f.Replay.Request != "" {
		for _, n := range nodes {
			d, errs := n.exec(f.Replay.Request)
			fmt.Printf("%-40q %s errs=%v\n", n.cfg.Name, world.Canon(d), errs)
		}
	}
	for _, q := range os.Args[5:] {
		for _, n := range nodes {
			d, errs := n.exec(q)
			fmt.Printf("%-40q %s errs=%v\n", n.cfg.Name, world.Canon(d), errs)
		}
	}
	return 0
}
