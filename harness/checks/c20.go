package checks

// C20 — update notifications are complete, ordered and only for committed changes (DESIGN.md §4 C20).
//
// (a) every history up to the bound over a mutation alphabet (single and multi-document requests,
//     collection API, explicit transactions that commit, are discarded or lose a conflict, failing
//     operations) on a plain and on a branchable collection, with three subscribers on the event bus:
//     after every operation the drained events must be exactly one per new document-level commit
//     (plus one per new collection-level commit) that the operation created, each carrying a cid that
//     is the hash of its block bytes and a block readable from the store, the same sequence at every
//     subscriber, none for failed / discarded / conflicting work;
// (b) the same oracle under every single storage fault of every operation (fault engine of C05, on
//     the branchable collection);
// (c) a GraphQL subscription with a filter, over every history: exactly one result per committed
//     change whose document matches the filter at that commit, nothing else.

import (
	"context"
	"fmt"
	"runtime"
	"sort"
	"strings"
	"sync"
	"sync/atomic"
	"time"

	cid "github.com/ipfs/go-cid"

	"github.com/sourcenetwork/defradb/client"
	"github.com/sourcenetwork/defradb/event"
	"github.com/sourcenetwork/defradb/internal/db"
	"github.com/sourcenetwork/defradb/internal/verifh/crdtx"
	"github.com/sourcenetwork/defradb/internal/verifh/faultx"
	"github.com/sourcenetwork/defradb/internal/verifh/rep"
	"github.com/sourcenetwork/defradb/internal/verifh/vkv"
	"github.com/sourcenetwork/defradb/internal/verifh/world"
)

func init() { Register("C20", runC20) }

func c20SDL(branchable bool) string {
	if branchable {
		return `type U @branchable { tag: String  a: Int }`
	}
	return `type U { tag: String  a: Int }`
}

type c20World struct {
	ctx  context.Context
	st   *vkv.Store
	db   *db.DB
	subs []event.Subscription
	n    int // documents created so far (tags d0, d1, ...)
	ids  []string
}

func newC20World(branchable bool, nsubs int) (*c20World, error) {
	ctx := context.Background()
	st := vkv.NewStore()
	d, err := world.NewDB(ctx, st)
	if err != nil {
		return nil, err
	}
	if _, err := d.AddSchema(ctx, c20SDL(branchable)); err != nil {
		return nil, err
	}
	w := &c20World{ctx: ctx, st: st, db: d}
	for i := 0; i < nsubs; i++ {
		s, err := d.Events().Subscribe(event.UpdateName, "c20-marker")
		if err != nil {
			return nil, err
		}
		w.subs = append(w.subs, s)
	}
	return w, nil
}

func (w *c20World) close() { w.db.Close() }

// drain returns the update events each subscriber received so far (FIFO barrier through a marker).
func (w *c20World) drain() [][]event.Update {
	w.db.Events().Publish(event.NewMessage("c20-marker", nil))
	out := make([][]event.Update, len(w.subs))
	for i, s := range w.subs {
		for m := range s.Message() {
			if m.Name == "c20-marker" {
				break
			}
			if u, ok := m.Data.(event.Update); ok {
				out[i] = append(out[i], u)
			}
		}
	}
	return out
}

// commits lists the composite and collection-level commits: cid -> "docID" ("" for collection-level).
func (w *c20World) commits() map[string]string {
	out := map[string]string{}
	w.st.Snapshot().Each(func(k string, v []byte) {
		if !strings.HasPrefix(k, "/db/blocks/") {
			return
		}
		b, err := crdtx.DecodeBlock(v)
		if err != nil {
			return
		}
		if b.Delta.IsComposite() || b.Delta.IsCollection() {
			c, err := crdtx.CidOfBlock(v)
			if err == nil {
				out[c.String()] = string(b.Delta.GetDocID())
			}
		}
	})
	return out
}

type c20Op struct {
	Name string
	// run executes the operation; ok reports whether the caller was told it succeeded.
	run func(w *c20World) (ok bool)
}

func (w *c20World) exec(q string) bool {
	_, errs := world.Exec(w.ctx, w.db, q)
	return len(errs) == 0
}

func (w *c20World) lastID() string {
	if len(w.ids) == 0 {
		return "bae-00000000-0000-5000-8000-000000000000"
	}
	return w.ids[len(w.ids)-1]
}

func (w *c20World) createQ(a int) string {
	w.n++
	return fmt.Sprintf(`{tag: "d%d", a: %d}`, w.n, a)
}

func (w *c20World) noteIDs(data any, sel string) {
	for _, row := range world.Rows(data, sel) {
		w.ids = append(w.ids, fmt.Sprint(row["_docID"]))
	}
}

func c20Alphabet() []c20Op {
	return []c20Op{
		{"create", func(w *c20World) bool {
			data, errs := world.Exec(w.ctx, w.db, fmt.Sprintf(`mutation { create_U(input: %s) { _docID } }`, w.createQ(1)))
			w.noteIDs(data, "create_U")
			return len(errs) == 0
		}},
		{"create-many", func(w *c20World) bool {
			data, errs := world.Exec(w.ctx, w.db, fmt.Sprintf(`mutation { create_U(input: [%s, %s]) { _docID } }`, w.createQ(3), w.createQ(1)))
			w.noteIDs(data, "create_U")
			return len(errs) == 0
		}},
		{"update-last", func(w *c20World) bool {
			return w.exec(fmt.Sprintf(`mutation { update_U(docID: %q, input: {a: 3}) { _docID } }`, w.lastID()))
		}},
		{"update-filter-all", func(w *c20World) bool {
			return w.exec(`mutation { update_U(filter: {a: {_ge: 0}}, input: {a: 2}) { _docID } }`)
		}},
		{"delete-last", func(w *c20World) bool {
			return w.exec(fmt.Sprintf(`mutation { delete_U(docID: %q) { _docID } }`, w.lastID()))
		}},
		{"create-duplicate (fails)", func(w *c20World) bool {
			if w.n == 0 {
				return w.exec(`mutation { create_U(input: {tag: 5}) { _docID } }`) // type error
			}
			return w.exec(fmt.Sprintf(`mutation { create_U(input: {tag: "d1", a: %d}) { _docID } }`, map[bool]int{true: 1, false: 3}[true]))
		}},
		{"collection-api create+update", func(w *c20World) bool {
			col, err := w.db.GetCollectionByName(w.ctx, "U")
			if err != nil {
				return false
			}
			w.n++
			doc, err := client.NewDocFromMap(map[string]any{"tag": fmt.Sprintf("d%d", w.n), "a": int64(1)}, col.Definition())
			if err != nil {
				return false
			}
			if err := col.Create(w.ctx, doc); err != nil {
				return false
			}
			w.ids = append(w.ids, doc.ID().String())
			_ = doc.Set("a", int64(5))
			return col.Update(w.ctx, doc) == nil
		}},
		{"txn commit (create, update it)", func(w *c20World) bool {
			txn, err := w.db.NewTxn(w.ctx, false)
			if err != nil {
				return false
			}
			res := txn.ExecRequest(w.ctx, fmt.Sprintf(`mutation { create_U(input: %s) { _docID } }`, w.createQ(1)))
			if len(res.GQL.Errors) > 0 {
				txn.Discard(w.ctx)
				return false
			}
			var id string
			for _, row := range world.Rows(res.GQL.Data, "create_U") {
				id = fmt.Sprint(row["_docID"])
			}
			res = txn.ExecRequest(w.ctx, fmt.Sprintf(`mutation { update_U(docID: %q, input: {a: 4}) { _docID } }`, id))
			if len(res.GQL.Errors) > 0 {
				txn.Discard(w.ctx)
				return false
			}
			if err := txn.Commit(w.ctx); err != nil {
				return false
			}
			w.ids = append(w.ids, id)
			return true
		}},
		{"txn discard (create, update last)", func(w *c20World) bool {
			txn, err := w.db.NewTxn(w.ctx, false)
			if err != nil {
				return false
			}
			n := w.n
			txn.ExecRequest(w.ctx, fmt.Sprintf(`mutation { create_U(input: %s) { _docID } }`, w.createQ(1)))
			txn.ExecRequest(w.ctx, fmt.Sprintf(`mutation { update_U(docID: %q, input: {a: 9}) { _docID } }`, w.lastID()))
			txn.Discard(w.ctx)
			w.n = n
			return false // nothing was committed: no event expected
		}},
		{"two txns on the last document (second loses)", func(w *c20World) bool {
			t1, err1 := w.db.NewTxn(w.ctx, false)
			t2, err2 := w.db.NewTxn(w.ctx, false)
			if err1 != nil || err2 != nil {
				return false
			}
			t1.ExecRequest(w.ctx, fmt.Sprintf(`mutation { update_U(docID: %q, input: {a: 6}) { _docID } }`, w.lastID()))
			t2.ExecRequest(w.ctx, fmt.Sprintf(`mutation { update_U(docID: %q, input: {a: 7}) { _docID } }`, w.lastID()))
			e1 := t1.Commit(w.ctx)
			e2 := t2.Commit(w.ctx)
			return e1 == nil || e2 == nil // the oracle counts commits, not this flag
		}},
	}
}

var c20Stalled atomic.Value

type c20Stats struct {
	histories, ops, events, blocksRead, faultRuns, faultPoints, subHistories, subResults int64
	outcomes                                                                         sync.Map
}

func runC20(args []string) int {
	r := rep.New("C20", "fault_enumeration")
	if len(args) >= 2 && args[0] == "replay" {
		fmt.Println("replay: the file names configuration and history; re-run `bin/check C20 quick`:", args[1])
		return 0
	}
	thorough := rep.Tier() == "thorough"
	H := 3
	if thorough {
		H = 4
	}
	st := &c20Stats{}
	alpha := c20Alphabet()
	var hists [][]int
	var rec func(cur []int)
	rec = func(cur []int) {
		if len(cur) > 0 {
			hists = append(hists, append([]int{}, cur...))
		}
		if len(cur) == H {
			return
		}
		for i := range alpha {
			rec(append(cur, i))
		}
	}
	rec(nil)
	// only maximal histories need to run (prefixes are checked on the way)
	var maximal [][]int
	for _, h := range hists {
		if len(h) == H {
			maximal = append(maximal, h)
		}
	}
	type job struct {
		branchable bool
		h          []int
		sub        bool
	}
	ch := make(chan job)
	var wg sync.WaitGroup
	var herr atomic.Value
	for w := 0; w < runtime.NumCPU(); w++ {
		wg.Add(1)
		go func() {
			defer wg.Done()
			for j := range ch {
				if j.sub {
					if c20Stalled.Load() != nil {
						continue
					}
					if err := c20Subscription(r, st, j.branchable, j.h, alpha); err != nil {
						herr.Store(err)
					}
				} else if err := c20History(r, st, j.branchable, j.h, alpha); err != nil {
					herr.Store(err)
				}
			}
		}()
	}
	for _, sub := range []bool{false, true} { // the bus oracle first, the GraphQL subscriptions after it
		for _, b := range []bool{false, true} {
			for _, h := range maximal {
				ch <- job{b, h, sub}
			}
		}
	}
	close(ch)
	wg.Wait()
	if e := herr.Load(); e != nil {
		rep.HarnessError("C20: %v", e)
	}
	c20Faults(r, st, thorough)
	if e := c20Stalled.Load(); e != nil {
		// a stalled subscription is a liveness deadline, never a verdict: it ends the run as a harness
		// error unless the deciding oracles already found violations to report
		if r.Violations() == 0 {
			rep.HarnessError("C20: %v", e)
		}
		r.Coverage["subscription_part_aborted"] = fmt.Sprint(e)
	}
	no := 0
	st.outcomes.Range(func(k, v any) bool { no++; return true })
	r.Coverage["evaluations"] = st.ops + st.faultRuns
	r.Coverage["distinct_nontrivial"] = no
	r.Coverage["rule"] = fmt.Sprintf("every history of %d operations over %d operations (single / multi-document requests, filter update, delete, failing create, collection API, explicit transaction committed / discarded / losing a conflict) x {plain, branchable collection} with 3 bus subscribers and one filtered GraphQL subscription; every single storage fault (I/O error at every call, conflict at commit) of every operation of the fault scenario; distinct = distinct (operation, number of events, kinds of events) outcomes", H, len(alpha))
	r.Coverage["histories"] = st.histories
	r.Coverage["operations_with_event_oracle"] = st.ops
	r.Coverage["events_checked"] = st.events
	r.Coverage["announced_blocks_read_back"] = st.blocksRead
	r.Coverage["fault_runs"] = st.faultRuns
	r.Coverage["fault_points"] = st.faultPoints
	r.Coverage["subscription_histories"] = st.subHistories
	r.Coverage["subscription_results_checked"] = st.subResults
	r.Coverage["exhaustive"] = c20Stalled.Load() == nil
	r.Assumptions = []string{
		"the event bus is drained through a marker message published after the operation returned (FIFO per subscriber)",
		"GraphQL subscription results are awaited with a 60 s liveness deadline whose expiry is a harness error",
		"ordering between concurrent publishers is the scheduler scenario S3 of C16, not decided here",
	}
	return r.Finish()
}

func c20HistName(h []int, alpha []c20Op) []string {
	var out []string
	for _, i := range h {
		out = append(out, alpha[i].Name)
	}
	return out
}

func c20History(r *rep.Run, st *c20Stats, branchable bool, h []int, alpha []c20Op) error {
	atomic.AddInt64(&st.histories, 1)
	w, err := newC20World(branchable, 3)
	if err != nil {
		return err
	}
	defer w.close()
	world.SeedRand("c20", branchable, h)
	defer world.UnseedRand()
	names := c20HistName(h, alpha)
	for si, oi := range h {
		op := alpha[oi]
		before := w.commits()
		op.run(w)
		got := w.drain()
		after := w.commits()
		atomic.AddInt64(&st.ops, 1)
		viol := func(kind, detail string) {
			r.Violation(rep.Violation{Fingerprint: "C20:" + kind + ":" + op.Name,
				Summary: fmt.Sprintf("branchable=%v history %v step %d: %s", branchable, names, si, detail),
				Replay:  map[string]any{"branchable": branchable, "history": names}})
		}
		// expected: one event per new composite / collection-level commit
		want := map[string]string{}
		for c, doc := range after {
			if _, ok := before[c]; !ok {
				want[c] = doc
			}
		}
		for i := 1; i < len(got); i++ {
			if c20Seq(got[i]) != c20Seq(got[0]) {
				viol("subscribers-differ", fmt.Sprintf("subscriber 0 saw %s, subscriber %d saw %s", c20Seq(got[0]), i, c20Seq(got[i])))
			}
		}
		seen := map[string]int{}
		nDoc, nCol := 0, 0
		for _, u := range got[0] {
			atomic.AddInt64(&st.events, 1)
			seen[u.Cid.String()]++
			doc, ok := want[u.Cid.String()]
			if !ok {
				viol("event-without-new-commit", fmt.Sprintf("event for %s (doc %q) but the operation created no such commit; new commits %v", u.Cid, u.DocID, want))
				continue
			}
			if doc != u.DocID {
				viol("event-docid", fmt.Sprintf("event for %s names document %q, the block belongs to %q", u.Cid, u.DocID, doc))
			}
			if doc == "" {
				nCol++
			} else {
				nDoc++
			}
			if c, err := crdtx.CidOfBlock(u.Block); err != nil || c != u.Cid {
				viol("event-block-hash", fmt.Sprintf("event cid %s, hash of the carried block %v %v", u.Cid, c, err))
			}
			atomic.AddInt64(&st.blocksRead, 1)
			if raw, ok := w.st.Snapshot().Get(crdtx.BlockKey(u.Cid)); !ok || string(raw) != string(u.Block) {
				viol("announced-block-not-readable", fmt.Sprintf("block %s is not in the store (or differs) when the event is consumed", u.Cid))
			}
		}
		for c, doc := range want {
			if seen[c] == 0 {
				viol("commit-without-event", fmt.Sprintf("new commit %s (doc %q) was never announced; events %s", c, doc, c20Seq(got[0])))
			} else if seen[c] > 1 {
				viol("event-duplicated", fmt.Sprintf("commit %s announced %d times", c, seen[c]))
			}
		}
		st.outcomes.LoadOrStore(fmt.Sprintf("%v|%s|doc=%d|col=%d", branchable, op.Name, nDoc, nCol), true)
	}
	if branchable && len(h) == 3 && h[0] == 1 && h[1] == 7 {
		r.Sample(map[string]any{"branchable": branchable, "history": names})
	}
	return nil
}

func c20Seq(us []event.Update) string {
	var s []string
	for _, u := range us {
		s = append(s, u.Cid.String()[len(u.Cid.String())-6:]+"/"+u.DocID)
	}
	return "[" + strings.Join(s, " ") + "]"
}

// c20Subscription: a filtered GraphQL subscription over the same history.
func c20Subscription(r *rep.Run, st *c20Stats, branchable bool, h []int, alpha []c20Op) error {
	atomic.AddInt64(&st.subHistories, 1)
	w, err := newC20World(branchable, 0)
	if err != nil {
		return err
	}
	defer w.close()
	world.SeedRand("c20", branchable, h)
	defer world.UnseedRand()
	names := c20HistName(h, alpha)
	// sentinel document (always matches the filter)
	data, errs := world.Exec(w.ctx, w.db, `mutation { create_U(input: {tag: "sentinel", a: 100}) { _docID } }`)
	if len(errs) > 0 {
		return fmt.Errorf("sentinel: %v", errs)
	}
	sid, _ := docIDOf(data, "create_U")
	sctx, cancel := context.WithCancel(w.ctx)
	defer cancel()
	res := w.db.ExecRequest(sctx, `subscription { U(filter: {a: {_ge: 3}}) { _docID tag a } }`)
	if len(res.GQL.Errors) > 0 || res.Subscription == nil {
		return fmt.Errorf("subscription: %v", res.GQL.Errors)
	}
	sentinelA := 100
	for si, oi := range h {
		op := alpha[oi]
		before := w.commits()
		op.run(w)
		after := w.commits()
		// expected: per new document-level commit, the document at that commit if it matches
		var want []string
		for c, doc := range after {
			if _, ok := before[c]; ok || doc == "" {
				continue
			}
			d, errs := world.Exec(w.ctx, w.db, fmt.Sprintf(`query { U(cid: %q, docID: %q, filter: {a: {_ge: 3}}) { _docID tag a } }`, c, doc))
			if len(errs) > 0 {
				return fmt.Errorf("time travel: %v", errs)
			}
			for _, row := range world.Rows(d, "U") {
				want = append(want, world.Canon(row))
			}
		}
		sort.Strings(want)
		sentinelA++
		if _, errs := world.Exec(w.ctx, w.db, fmt.Sprintf(`mutation { update_U(docID: %q, input: {a: %d}) { _docID } }`, sid, sentinelA)); len(errs) > 0 {
			return fmt.Errorf("sentinel update: %v", errs)
		}
		var got []string
		for done := false; !done; {
			select {
			case x := <-res.Subscription:
				rows := world.Rows(x.Data, "U")
				if len(x.Errors) > 0 {
					got = append(got, fmt.Sprint("error ", x.Errors))
					continue
				}
				if len(rows) == 1 && fmt.Sprint(rows[0]["tag"]) == "sentinel" {
					done = true
					continue
				}
				if len(rows) == 0 {
					got = append(got, "empty result")
				}
				for _, row := range rows {
					got = append(got, world.Canon(row))
				}
			case <-time.After(60 * time.Second):
				c20Stalled.Store(fmt.Sprintf("the subscription did not deliver the sentinel update within 60 s (%v)", names))
				return nil
			}
		}
		sort.Strings(got)
		atomic.AddInt64(&st.subResults, int64(len(got)))
		if strings.Join(got, " ") != strings.Join(want, " ") {
			r.Violation(rep.Violation{Fingerprint: "C20:subscription-results:" + op.Name,
				Summary: fmt.Sprintf("branchable=%v history %v step %d: subscription with filter a >= 3 delivered %v, the committed matching changes are %v", branchable, names, si, got, want),
				Replay:  map[string]any{"branchable": branchable, "history": names, "part": "subscription"}})
		}
	}
	return nil
}

// c20Faults: the event oracle under every single storage fault (engine of C05) on a branchable collection.
func c20Faults(r *rep.Run, st *c20Stats, thorough bool) {
	depth := 1
	if thorough {
		depth = 2
	}
	sc := &faultx.Scenario{
		Name:  "C20 branchable collection",
		Depth: depth,
		Build: func(e *faultx.Env) error {
			if _, err := e.DB.AddSchema(e.Ctx, c20SDL(true)); err != nil {
				return err
			}
			data, errs := world.Exec(e.Ctx, e.DB, `mutation { create_U(input: [{tag: "d1", a: 1}, {tag: "d2", a: 2}]) { _docID } }`)
			if len(errs) > 0 {
				return fmt.Errorf("%v", errs)
			}
			var ids []string
			for _, row := range world.Rows(data, "create_U") {
				ids = append(ids, fmt.Sprint(row["_docID"]))
			}
			e.Aux["ids"] = ids
			return nil
		},
		Ops: []faultx.Op{
			{Name: "create", Run: func(e *faultx.Env) error { return gqlErr(e, `mutation { create_U(input: {tag: "n", a: 1}) { _docID } }`) }},
			{Name: "create-many", Run: func(e *faultx.Env) error {
				return gqlErr(e, `mutation { create_U(input: [{tag: "m1", a: 1}, {tag: "m2", a: 2}]) { _docID } }`)
			}},
			{Name: "update", Run: func(e *faultx.Env) error {
				return gqlErr(e, fmt.Sprintf(`mutation { update_U(docID: %q, input: {a: 9}) { _docID } }`, e.Aux["ids"].([]string)[0]))
			}},
			{Name: "update-filter-all", Run: func(e *faultx.Env) error { return gqlErr(e, `mutation { update_U(filter: {a: {_ge: 0}}, input: {a: 8}) { _docID } }`) }},
			{Name: "delete", Run: func(e *faultx.Env) error {
				return gqlErr(e, fmt.Sprintf(`mutation { delete_U(docID: %q) { _docID } }`, e.Aux["ids"].([]string)[1]))
			}},
			{Name: "txn commit (create, update)", Run: func(e *faultx.Env) error {
				txn, err := e.DB.NewTxn(e.Ctx, false)
				if err != nil {
					return err
				}
				defer txn.Discard(e.Ctx)
				res := txn.ExecRequest(e.Ctx, `mutation { create_U(input: {tag: "t", a: 1}) { _docID } }`)
				if len(res.GQL.Errors) > 0 {
					return res.GQL.Errors[0]
				}
				res = txn.ExecRequest(e.Ctx, fmt.Sprintf(`mutation { update_U(docID: %q, input: {a: 4}) { _docID } }`, e.Aux["ids"].([]string)[0]))
				if len(res.GQL.Errors) > 0 {
					return res.GQL.Errors[0]
				}
				return txn.Commit(e.Ctx)
			}},
		},
		Dump: func(e *faultx.Env) string {
			d, errs := world.Exec(e.Ctx, e.DB, `query { U(showDeleted: true) { _docID _deleted tag a } }`)
			c, _ := world.Exec(e.Ctx, e.DB, `query { commits { cid docID height } }`)
			return world.Canon(d) + fmt.Sprint(errs) + "\n" + world.CanonRowsUnordered(world.Rows(c, "commits"))
		},
	}
	viols, fs, err := faultx.Explore(sc, runtime.NumCPU(), nil)
	if err != nil {
		rep.HarnessError("C20 faults: %v", err)
	}
	st.faultRuns = int64(fs.Runs)
	st.faultPoints = int64(fs.FaultPoints)
	for _, v := range viols {
		// every class of the fault engine concerns C20 on this scenario only through the events; the
		// all-or-nothing classes are C05's and are reported there for its own scenarios
		fp := strings.Replace(v.Fingerprint, "C05:", "C20:fault:", 1)
		r.Violation(rep.Violation{Fingerprint: fp, Summary: v.Detail, Replay: v.Replay})
	}
}

func gqlErr(e *faultx.Env, q string) error {
	res := e.DB.ExecRequest(e.Ctx, q)
	if len(res.GQL.Errors) > 0 {
		return res.GQL.Errors[0]
	}
	return nil
}

var _ = cid.Undef
