package checks

// C18 — export followed by import reproduces the data (DESIGN.md §4 C18).
//
// (1) value fidelity: a collection with one field per scalar / array kind; for every value of a
// per-kind edge alphabet one document holding that value (plus documents combining fields and
// explicit nulls) is written through the collection API, exported (pretty and compact) and imported
// into an empty database with the same schema; both databases must answer the same field values.
// (2) relations: every relational data set of the C09 generator (1-N, 1-1, self reference incl. a
// document that points to itself, second hop) x every subset of documents "aged" by an update after
// creation (so that their identifier differs from the one recomputed on export) x pretty/compact x
// collection subsets: the relation structure read by names must be the same in the target, the
// _docID -> _docIDNew mapping of the file must be the identifiers found in the target, and exporting
// the target again must give the same file modulo the identifier columns.
// (3) atomicity: a file whose last document cannot be created imports nothing.

import (
	"context"
	"encoding/json"
	"fmt"
	"math"
	"os"
	"path/filepath"
	"runtime"
	"sort"
	"strings"
	"sync"
	"sync/atomic"

	"github.com/sourcenetwork/defradb/client"
	"github.com/sourcenetwork/defradb/internal/db"
	"github.com/sourcenetwork/defradb/internal/verifh/rep"
	"github.com/sourcenetwork/defradb/internal/verifh/vkv"
	"github.com/sourcenetwork/defradb/internal/verifh/world"
)

func init() { Register("C18", runC18) }

const c18ScalarSDL = `type A {
	tag: String
	i: Int
	f: Float
	s: String
	b: Boolean
	d: DateTime
	blob: Blob
	j: JSON
	ai: [Int]
	ani: [Int!]
	af: [Float]
	as: [String]
	ab: [Boolean]
}`

type c18Val struct {
	Field string
	JSON  string // the value as JSON text (documents are created from JSON text, the precise route)
}

func c18Alphabet() []c18Val {
	var out []c18Val
	add := func(f string, vs ...string) {
		for _, v := range vs {
			out = append(out, c18Val{f, v})
		}
	}
	add("i", "0", "-1", "2147483648", "9007199254740991", "9007199254740992", "9007199254740993", "-9007199254740993",
		"9223372036854775807", "-9223372036854775808", "1234567890123456789", "null")
	add("f", "0.1", "-2.5", "1e-7", "1.7976931348623157e308", "5e-324", "3", "123456789.12345678", "0.30000000000000004", "-0", "1e21", "null",
		// whole numbers at the boundaries between the spellings a JSON encoder chooses: below/above 2^53, 2^63, 2^64, 1e20/1e21
		"1e20", "-1e20", "9223372036854775808", "-9223372036854775809", "18446744073709551616", "999999999999999900000", "4503599627370496", "1e15")
	add("s", `""`, `"a"`, `"héllo ✓"`, `"quote\" newline\n backslash\\ tab\t"`, `"<tag> & 'x'"`, `"\u0000"`, `"9007199254740993"`, "null")
	add("b", "true", "false", "null")
	add("d", `"2020-01-01T00:00:00Z"`, `"2020-01-01T00:00:00.123456789Z"`, `"1999-12-31T23:59:59.999999999Z"`, `"2020-06-01T12:00:00+02:00"`, `"0001-01-02T00:00:00Z"`, `"9999-12-31T23:59:59Z"`, "null")
	add("blob", `"00ff"`, `"00"`, `"deadbeef00112233445566778899aabbccddeeff"`, "null")
	add("j", `{"a": 1}`, `[1, 2, {"b": null}]`, `"str"`, `12`, `1.5`, `true`, `{"a": {"b": {"c": []}}}`, `{"big": 9007199254740993}`, `9007199254740993`, `{}`, `[]`, `{"k": "v", "n": -0.5, "l": [true, false, null]}`, "null",
		`1e20`, `{"n": 1e20, "m": [18446744073709551616, -1e20]}`, `9223372036854775808`, `1e21`)
	add("ai", `[1, null, 3]`, `[]`, `[9007199254740993]`, `[-9223372036854775808, 9223372036854775807]`, "null")
	add("ani", `[1, 2]`, `[]`, `[9007199254740993]`)
	add("af", `[1.5, null]`, `[0.1, 1e-7, 3]`, `[]`, `[1e20, 9223372036854775808, 1e21, -0]`)
	add("as", `["a", null, ""]`, `[]`, `["✓"]`)
	add("ab", `[true, null, false]`, `[]`)
	return out
}

type c18Stats struct {
	exports, imports, docsCompared, valueDocs, relCases, mappings, reexports, atomic int64
	outcomes                                                                     sync.Map
}

func c18Tmp() string {
	dir := filepath.Join(rep.Root, ".build", fmt.Sprintf("c18-%d", os.Getpid()))
	_ = os.MkdirAll(dir, 0o755)
	return dir
}

func newPlainDB(sdl string) (*db.DB, *vkv.Store, error) {
	ctx := context.Background()
	st := vkv.NewStore()
	d, err := world.NewDB(ctx, st)
	if err != nil {
		return nil, nil, err
	}
	if _, err := d.AddSchema(ctx, sdl); err != nil {
		return nil, nil, err
	}
	return d, st, nil
}

func runC18(args []string) int {
	r := rep.New("C18", "exploration")
	if len(args) >= 2 && args[0] == "replay" {
		fmt.Println("replay: the file names the case; re-run `bin/check C18 quick`:", args[1])
		return 0
	}
	defer os.RemoveAll(c18Tmp())
	st := &c18Stats{}
	if err := c18Values(r, st); err != nil {
		rep.HarnessError("C18 values: %v", err)
	}
	if err := c18Relations(r, st); err != nil {
		rep.HarnessError("C18 relations: %v", err)
	}
	if err := c18Atomic(r, st); err != nil {
		rep.HarnessError("C18 atomic: %v", err)
	}
	no := 0
	st.outcomes.Range(func(k, v any) bool { no++; return true })
	r.Coverage["evaluations"] = st.docsCompared
	r.Coverage["distinct_nontrivial"] = no
	r.Coverage["rule"] = "values: one document per value of the per-kind edge alphabets (Int incl. +-2^53+-1 and int64 extremes, Float incl. 17-digit/sub-normal/max and whole numbers around 2^53, 2^63, 2^64, 1e20, 1e21 (also inside JSON values and Float arrays), String incl. escapes and NUL, DateTime to the nanosecond and with zones, Blob, JSON incl. nested and big integers, arrays with nulls, explicit nulls) + documents holding all fields, x {pretty, compact}; relations: every C09 data set x every subset of {g0,p0,p1,k0,o0} updated after creation x {pretty, compact} x collection subsets; distinct = distinct (field, value) pairs and distinct (data set, aged subset) pairs"
	r.Coverage["exports"] = st.exports
	r.Coverage["imports"] = st.imports
	r.Coverage["value_documents"] = st.valueDocs
	r.Coverage["relation_cases"] = st.relCases
	r.Coverage["id_mappings_checked"] = st.mappings
	r.Coverage["re_exports_compared"] = st.reexports
	r.Coverage["atomicity_cases"] = st.atomic
	r.Coverage["exhaustive"] = true
	r.Assumptions = []string{
		"source documents are written from JSON text through the collection API (GraphQL Int literals are 32-bit)",
		"float values are compared after Go's shortest round-trip formatting; -0 and 0 are one value",
		"atomicity under storage faults at every storage call of BasicImport is C05's subject (same engine); here: a logically failing last document",
	}
	return r.Finish()
}

func c18Query(d *db.DB, req, sel string) (map[string]string, error) {
	data, errs := world.Exec(context.Background(), d, req)
	if len(errs) > 0 {
		return nil, fmt.Errorf("%s: %v", req, errs)
	}
	out := map[string]string{}
	for _, row := range world.Rows(data, sel) {
		tag := fmt.Sprint(row["tag"])
		if _, dup := out[tag]; dup {
			return nil, fmt.Errorf("duplicate tag %s", tag)
		}
		out[tag] = world.Canon(row)
	}
	return out, nil
}

func c18Values(r *rep.Run, st *c18Stats) error {
	ctx := context.Background()
	src, _, err := newPlainDB(c18ScalarSDL)
	if err != nil {
		return err
	}
	defer src.Close()
	col, err := src.GetCollectionByName(ctx, "A")
	if err != nil {
		return err
	}
	alpha := c18Alphabet()
	type vdoc struct{ tag, json string }
	var docs []vdoc
	for i, v := range alpha {
		docs = append(docs, vdoc{fmt.Sprintf("v%03d %s=%s", i, v.Field, v.JSON), fmt.Sprintf(`{"tag": %q, %q: %s}`, fmt.Sprintf("v%03d %s=%s", i, v.Field, v.JSON), v.Field, v.JSON)})
	}
	// documents holding every field: the k-th value of every alphabet
	byField := map[string][]string{}
	var fields []string
	for _, v := range alpha {
		if _, ok := byField[v.Field]; !ok {
			fields = append(fields, v.Field)
		}
		if v.JSON != "null" {
			byField[v.Field] = append(byField[v.Field], v.JSON)
		}
	}
	for k := 0; k < 4; k++ {
		parts := []string{fmt.Sprintf(`"tag": "all-%d"`, k)}
		for _, f := range fields {
			vs := byField[f]
			parts = append(parts, fmt.Sprintf("%q: %s", f, vs[k%len(vs)]))
		}
		docs = append(docs, vdoc{fmt.Sprintf("all-%d", k), "{" + strings.Join(parts, ", ") + "}"})
	}
	for _, dd := range docs {
		doc, err := client.NewDocFromJSON([]byte(dd.json), col.Definition())
		if err != nil {
			return fmt.Errorf("NewDocFromJSON %s: %w", dd.json, err)
		}
		if err := col.Create(ctx, doc); err != nil {
			return fmt.Errorf("create %s: %w", dd.json, err)
		}
		atomic.AddInt64(&st.valueDocs, 1)
	}
	const q = `query { A { tag i f s b d blob j ai ani af as ab } }`
	want, err := c18Query(src, q, "A")
	if err != nil {
		return err
	}
	// the source itself must hold what was written (otherwise C18 has nothing to compare): spot check of integers
	for _, pretty := range []bool{false, true} {
		file := filepath.Join(c18Tmp(), fmt.Sprintf("values-%v.json", pretty))
		if err := src.BasicExport(ctx, &client.BackupConfig{Filepath: file, Pretty: pretty}); err != nil {
			return fmt.Errorf("export: %w", err)
		}
		atomic.AddInt64(&st.exports, 1)
		dst, _, err := newPlainDB(c18ScalarSDL)
		if err != nil {
			return err
		}
		if err := dst.BasicImport(ctx, file); err != nil {
			r.Violation(rep.Violation{Fingerprint: "C18:import-of-own-export-fails:values",
				Summary: fmt.Sprintf("pretty=%v: import of the exported file fails: %v", pretty, err), Replay: map[string]any{"part": "values", "pretty": pretty}})
			dst.Close()
			continue
		}
		atomic.AddInt64(&st.imports, 1)
		got, err := c18Query(dst, q, "A")
		if err != nil {
			return err
		}
		for tag, w := range want {
			atomic.AddInt64(&st.docsCompared, 1)
			st.outcomes.LoadOrStore("value:"+tag, true)
			g, ok := got[tag]
			if !ok {
				r.Violation(rep.Violation{Fingerprint: "C18:document-lost:" + c18FieldOf(tag),
					Summary: fmt.Sprintf("pretty=%v: document %q is missing after import", pretty, tag), Replay: map[string]any{"part": "values", "tag": tag}})
				continue
			}
			if g != w {
				r.Violation(rep.Violation{Fingerprint: "C18:value-changed:" + c18FieldOf(tag) + ":" + c18DiffField(w, g),
					Summary: fmt.Sprintf("pretty=%v: document %q\n  source %s\n  target %s", pretty, tag, w, g), Replay: map[string]any{"part": "values", "tag": tag, "source": w, "target": g}})
			}
		}
		for tag := range got {
			if _, ok := want[tag]; !ok {
				r.Violation(rep.Violation{Fingerprint: "C18:document-invented", Summary: "extra document " + tag, Replay: map[string]any{"part": "values", "tag": tag}})
			}
		}
		if !pretty {
			r.Sample(map[string]any{"part": "values", "documents": len(want), "example": docs[7].json})
		}
		// re-export of the imported database
		file2 := file + ".again"
		if err := dst.BasicExport(ctx, &client.BackupConfig{Filepath: file2, Pretty: pretty}); err != nil {
			return err
		}
		atomic.AddInt64(&st.exports, 1)
		atomic.AddInt64(&st.reexports, 1)
		if a, b, err := c18FilesEquivalent(file, file2); err != nil {
			return err
		} else if a != b {
			r.Violation(rep.Violation{Fingerprint: "C18:re-export-differs:values",
				Summary: fmt.Sprintf("pretty=%v: exporting the imported database gives another file\n  first  %s\n  second %s", pretty, firstDiff(a, b), firstDiff(b, a)), Replay: map[string]any{"part": "values", "pretty": pretty}})
		}
		dst.Close()
	}
	return nil
}

func c18FieldOf(tag string) string {
	if i := strings.Index(tag, " "); i > 0 {
		rest := tag[i+1:]
		if j := strings.Index(rest, "="); j > 0 {
			return rest[:j]
		}
	}
	return "all"
}

// c18DiffField names the first field whose rendering differs between two canonical rows.
func c18DiffField(a, b string) string {
	pa, pb := strings.Split(strings.Trim(a, "{}"), ","), strings.Split(strings.Trim(b, "{}"), ",")
	for i := range pa {
		if i >= len(pb) || pa[i] != pb[i] {
			if j := strings.Index(pa[i], ":"); j > 0 {
				return pa[i][:j]
			}
		}
	}
	return "?"
}

func firstDiff(a, b string) string {
	la, lb := strings.Split(a, "\n"), strings.Split(b, "\n")
	for i := range la {
		if i >= len(lb) || la[i] != lb[i] {
			return la[i]
		}
	}
	return ""
}

// c18FilesEquivalent renders two export files modulo the identifier columns: per collection the
// sorted list of documents with _docID dropped and foreign keys / _docIDNew kept (the second
// export's _docID must equal its _docIDNew, which must equal the first file's _docIDNew).
func c18FilesEquivalent(f1, f2 string) (string, string, error) {
	load := func(f string, second bool) (string, error) {
		b, err := os.ReadFile(f)
		if err != nil {
			return "", err
		}
		dec := json.NewDecoder(strings.NewReader(string(b)))
		dec.UseNumber()
		var m map[string][]map[string]any
		if err := dec.Decode(&m); err != nil {
			return "", fmt.Errorf("%s: %w", f, err)
		}
		var lines []string
		for col, docs := range m {
			for _, d := range docs {
				if second && d["_docID"] != d["_docIDNew"] {
					lines = append(lines, fmt.Sprintf("%s: second export changes the id again: %v -> %v", col, d["_docID"], d["_docIDNew"]))
				}
				delete(d, "_docID")
				j, _ := json.Marshal(d)
				lines = append(lines, col+": "+string(j))
			}
		}
		sort.Strings(lines)
		return strings.Join(lines, "\n"), nil
	}
	a, err := load(f1, false)
	if err != nil {
		return "", "", err
	}
	b, err := load(f2, true)
	return a, b, err
}

// ---------- relations ----------

const c18RelQueries = `P { name n kids { name v } one { name w } boss { name } minions { name } g { name z } }|K { name v parent { name } }|O { name w owner { name } }|G { name z ps { name } }`

func c18RelDump(d *db.DB) (string, error) {
	var parts []string
	for _, q := range strings.Split(c18RelQueries, "|") {
		top := q[:1]
		data, errs := world.Exec(context.Background(), d, "query { "+q+" }")
		if len(errs) > 0 {
			return "", fmt.Errorf("%s: %v", q, errs)
		}
		var lines []string
		for _, row := range world.Rows(data, top) {
			lines = append(lines, fmt.Sprint(row["name"])+" "+fmt.Sprint(row["n"], row["v"], row["w"], row["z"])+" "+rowText(row))
		}
		sort.Strings(lines)
		parts = append(parts, top+":\n"+strings.Join(lines, "\n"))
	}
	return strings.Join(parts, "\n"), nil
}

func c18Relations(r *rep.Run, st *c18Stats) error {
	thorough := rep.Tier() == "thorough"
	cfg := c09Configs()[0]
	maxK := 2
	if thorough {
		maxK = 3
	}
	datasets := c09Datasets(maxK, thorough)
	agedNames := []string{"g0", "p0", "p1", "k0", "o0"}
	type job struct {
		data relData
		aged int
	}
	var jobs []job
	for di, d := range datasets {
		for m := 0; m < 1<<len(agedNames); m++ {
			if !thorough && (m+di)%4 != 0 && m != 0 && m != 1<<len(agedNames)-1 {
				// quick: every aged subset occurs, spread over the data sets (a quarter each) + none/all everywhere
				continue
			}
			jobs = append(jobs, job{d, m})
		}
	}
	ch := make(chan job)
	var wg sync.WaitGroup
	var herr atomic.Value
	for w := 0; w < runtime.NumCPU(); w++ {
		wg.Add(1)
		go func(w int) {
			defer wg.Done()
			nodes, err := newRelNodes([]relWorldCfg{cfg, cfg})
			if err != nil {
				herr.Store(err)
				for range ch {
				}
				return
			}
			src, dst := nodes[0], nodes[1]
			n := 0
			for j := range ch {
				n++
				if err := c18RelCase(r, st, src, dst, j.data, j.aged, agedNames, w, n); err != nil {
					herr.Store(fmt.Errorf("%s aged=%b: %w", j.data, j.aged, err))
				}
			}
		}(w)
	}
	for _, j := range jobs {
		ch <- j
	}
	close(ch)
	wg.Wait()
	if e := herr.Load(); e != nil {
		return e.(error)
	}
	return nil
}

func c18RelCase(r *rep.Run, st *c18Stats, src, dst *relNode, data relData, aged int, agedNames []string, w, n int) error {
	ctx := context.Background()
	atomic.AddInt64(&st.relCases, 1)
	ids := map[string]string{}
	if err := src.loadRel(data, ids); err != nil {
		return err
	}
	var agedList []string
	for i, nm := range agedNames {
		if aged&(1<<i) == 0 {
			continue
		}
		id, ok := ids[nm]
		if !ok {
			continue
		}
		coll := map[byte]string{'g': "G", 'p': "P", 'k': "K", 'o': "O"}[nm[0]]
		field := map[string]string{"G": "z", "P": "n", "K": "v", "O": "w"}[coll]
		if _, errs := src.exec(fmt.Sprintf(`mutation { update_%s(docID: %q, input: {%s: 7}) { _docID } }`, coll, id, field)); len(errs) > 0 {
			return fmt.Errorf("age %s: %v", nm, errs)
		}
		agedList = append(agedList, nm)
	}
	want, err := c18RelDump(src.db)
	if err != nil {
		return err
	}
	st.outcomes.LoadOrStore(fmt.Sprintf("rel:%s|%v", data, agedList), true)
	subsets := [][]string{nil, {"K", "P", "O", "G"}, {"P", "G"}}
	for vi, variant := range []struct {
		pretty bool
		cols   []string
	}{{false, subsets[0]}, {true, subsets[1]}, {false, subsets[2]}} {
		file := filepath.Join(c18Tmp(), fmt.Sprintf("rel-%d-%d-%d.json", w, n, vi))
		if err := src.db.BasicExport(ctx, &client.BackupConfig{Filepath: file, Pretty: variant.pretty, Collections: variant.cols}); err != nil {
			return fmt.Errorf("export: %w", err)
		}
		atomic.AddInt64(&st.exports, 1)
		info := map[string]any{"part": "relations", "data": data.json(), "aged": agedList, "pretty": variant.pretty, "collections": variant.cols}
		dst.st.Restore(dst.base)
		if err := dst.db.BasicImport(ctx, file); err != nil {
			r.Violation(rep.Violation{Fingerprint: "C18:import-of-own-export-fails:relations:" + c18ErrClass(err),
				Summary: fmt.Sprintf("%s aged %v pretty=%v collections=%v: import fails: %v", data, agedList, variant.pretty, variant.cols, err), Replay: info})
			os.Remove(file)
			continue
		}
		atomic.AddInt64(&st.imports, 1)
		if len(variant.cols) == 0 || len(variant.cols) == 4 {
			got, err := c18RelDump(dst.db)
			if err != nil {
				return err
			}
			atomic.AddInt64(&st.docsCompared, int64(strings.Count(want, "\n")))
			if got != want {
				fp := "C18:relations-differ-after-import:" + c18RelDiffClass(want, got)
				if c18AgedChain(data, agedList) && c18OnlyRefsLost(want, got) {
					fp = "C18:link-lost-through-chain-of-two-updated-documents"
				}
				r.Violation(rep.Violation{Fingerprint: fp,
					Summary: fmt.Sprintf("%s aged %v pretty=%v: \n--- source\n%s\n--- target\n%s", data, agedList, variant.pretty, want, got), Replay: info})
			}
			if vi == 0 && len(agedList) > 1 && aged%5 == 0 {
				r.Sample(map[string]any{"part": "relations", "data": data.String(), "updated_after_creation": agedList})
			}
		}
		// the id mapping of the file against the target
		b, err := os.ReadFile(file)
		if err != nil {
			return err
		}
		var fm map[string][]map[string]any
		if err := json.Unmarshal(b, &fm); err != nil {
			return fmt.Errorf("export file is not JSON: %w", err)
		}
		for col, docs := range fm {
			for _, d := range docs {
				atomic.AddInt64(&st.mappings, 1)
				newID := fmt.Sprint(d["_docIDNew"])
				dd, errs := dst.exec(fmt.Sprintf(`query { %s(docID: %q) { name } }`, col, newID))
				rows := world.Rows(dd, col)
				if len(errs) > 0 || len(rows) != 1 || fmt.Sprint(rows[0]["name"]) != fmt.Sprint(d["name"]) {
					r.Violation(rep.Violation{Fingerprint: "C18:id-mapping-wrong:" + col,
						Summary: fmt.Sprintf("%s aged %v: the file maps %v (%v) to %s, the target holds %s %v there", data, agedList, d["_docID"], d["name"], newID, world.Canon(dd), errs), Replay: info})
				}
			}
		}
		// export of the imported database
		file2 := file + ".again"
		if err := dst.db.BasicExport(ctx, &client.BackupConfig{Filepath: file2, Pretty: variant.pretty, Collections: variant.cols}); err != nil {
			return fmt.Errorf("re-export: %w", err)
		}
		atomic.AddInt64(&st.exports, 1)
		atomic.AddInt64(&st.reexports, 1)
		if a, b, err := c18FilesEquivalent(file, file2); err != nil {
			return err
		} else if a != b {
			fp := "C18:re-export-differs:relations"
			if c18AgedChain(data, agedList) {
				fp = "C18:link-lost-through-chain-of-two-updated-documents:re-export"
			}
			r.Violation(rep.Violation{Fingerprint: fp,
				Summary: fmt.Sprintf("%s aged %v pretty=%v collections=%v\n  first  %s\n  second %s", data, agedList, variant.pretty, variant.cols, firstDiff(a, b), firstDiff(b, a)), Replay: info})
		}
		os.Remove(file)
		os.Remove(file2)
	}
	return nil
}

// c18AgedChain: some document X references a document Y that references a document Z whose
// identifier changes on export (Z was updated after creation, or references such a document): the
// export predicts Y's new id from Y's old foreign key, so X's link to Y is lost.
func c18AgedChain(data relData, aged []string) bool {
	in := map[string]bool{}
	for _, a := range aged {
		in[a] = true
	}
	refs := map[string][]string{"p0": {data.p0g}, "p1": {"g0", data.p1boss}}
	for i, k := range data.ks {
		refs[fmt.Sprintf("k%d", i)] = []string{k.parent}
	}
	for i, o := range data.os {
		refs[fmt.Sprintf("o%d", i)] = []string{o.parent}
	}
	// changed: the identifier changes on export - updated after creation, or referencing a changed one
	changed := map[string]bool{}
	for a := range in {
		changed[a] = true
	}
	for again := true; again; {
		again = false
		for x, ys := range refs {
			for _, y := range ys {
				if y != "" && y != x && changed[y] && !changed[x] {
					changed[x] = true
					again = true
				}
			}
		}
	}
	for x, ys := range refs {
		for _, y := range ys {
			if y == "" || y == x {
				continue
			}
			for _, z := range refs[y] {
				if z != "" && z != y && changed[z] {
					return true
				}
			}
		}
	}
	return false
}

// c18OnlyRefsLost: the target differs from the source only in relation fields that became empty.
func c18OnlyRefsLost(want, got string) bool {
	lw, lg := strings.Split(want, "\n"), strings.Split(got, "\n")
	if len(lw) != len(lg) {
		return false
	}
	for i := range lw {
		if lw[i] == lg[i] {
			continue
		}
		fw, fg := strings.Split(lw[i], ";"), strings.Split(lg[i], ";")
		if len(fw) != len(fg) {
			return false
		}
		for j := range fw {
			if fw[j] == fg[j] {
				continue
			}
			k := strings.Index(fg[j], "=")
			if k < 0 || !strings.HasPrefix(fw[j], fg[j][:k+1]) {
				return false
			}
			// the target side must hold fewer related documents ("-" or a shorter list)
			if !(fg[j][k+1:] == "-" || len(fg[j]) < len(fw[j])) {
				return false
			}
		}
	}
	return true
}

func c18ErrClass(err error) string {
	s := err.Error()
	for _, k := range []string{"already exists", "already linked", "not found", "invalid", "cannot"} {
		if strings.Contains(s, k) {
			return k
		}
	}
	if len(s) > 40 {
		s = s[:40]
	}
	return s
}

func c18RelDiffClass(a, b string) string {
	la, lb := strings.Split(a, "\n"), strings.Split(b, "\n")
	if len(la) != len(lb) {
		return "document-count"
	}
	for i := range la {
		if la[i] != lb[i] {
			f := strings.Fields(la[i])
			if len(f) > 0 {
				return "doc-" + strings.TrimRight(f[0], "0123456789x")
			}
		}
	}
	return "?"
}

// ---------- atomicity ----------

func c18Atomic(r *rep.Run, st *c18Stats) error {
	ctx := context.Background()
	for i, content := range []string{
		`{"A":[{"tag":"ok1","i":1},{"tag":"ok2","i":2},{"tag":"bad","i":"not a number"}]}`,
		`{"A":[{"tag":"ok1","i":1},{"tag":"ok1","i":1}]}`,
		`{"A":[{"tag":"ok1","i":1}],"Nope":[{"x":1}]}`,
		`{"A":[{"tag":"ok1","i":1},{"tag":"ok2"`,
	} {
		atomic.AddInt64(&st.atomic, 1)
		d, store, err := newPlainDB(c18ScalarSDL)
		if err != nil {
			return err
		}
		before := store.Snapshot()
		file := filepath.Join(c18Tmp(), fmt.Sprintf("atomic-%d.json", i))
		if err := os.WriteFile(file, []byte(content), 0o644); err != nil {
			return err
		}
		ierr := d.BasicImport(ctx, file)
		got, qerr := c18Query(d, `query { A { tag i } }`, "A")
		if qerr != nil {
			return qerr
		}
		same := vkvEqual(before, store.Snapshot())
		if ierr == nil {
			r.Violation(rep.Violation{Fingerprint: "C18:invalid-file-imported", Summary: fmt.Sprintf("file %s imported without error: %v", content, got), Replay: map[string]any{"part": "atomic", "file": content}})
		} else if len(got) != 0 || !same {
			r.Violation(rep.Violation{Fingerprint: "C18:failed-import-leaves-documents", Summary: fmt.Sprintf("file %s: import failed (%v) but the target holds %v (store unchanged: %v)", content, ierr, got, same), Replay: map[string]any{"part": "atomic", "file": content}})
		}
		d.Close()
	}
	return nil
}

func vkvEqual(a, b vkv.Snap) bool {
	eq := true
	n1, n2 := 0, 0
	a.Each(func(k string, v []byte) {
		n1++
		if w, ok := b.Get(k); !ok || string(w) != string(v) {
			eq = false
		}
	})
	b.Each(func(k string, v []byte) { n2++ })
	return eq && n1 == n2
}

var _ = math.MaxInt64
