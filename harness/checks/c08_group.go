package checks

// C08, grouping keys: groupBy over a String field (alone and combined with an Int field) must put two
// documents into one group exactly when their key values are equal - null, the empty string and
// strings that look like renderings of other values are all different keys.

import (
	"context"
	"fmt"
	"sort"
	"strings"

	"github.com/sourcenetwork/defradb/internal/verifh/rep"
	"github.com/sourcenetwork/defradb/internal/verifh/world"
)

func c08GroupKeys(r *rep.Run) (evals int) {
	ctx := context.Background()
	n, err := newQNode(`type T { u: Int  a: Int  s: String  t: String }`)
	if err != nil {
		rep.HarnessError("C08 group keys: %v", err)
	}
	defer n.db.Close()
	// key values per field: GraphQL literal ("" = field omitted, i.e. null)
	sVals := []string{"", `""`, `"x"`, `"<nil>"`, `"_"`, `"1"`}
	aVals := []string{"", "0", "1"}
	tVals := []string{"", `"y"`, `"_4_x"`}
	type shape struct{ s, a, t string }
	var shapes []shape
	for _, s := range sVals {
		for _, a := range aVals {
			shapes = append(shapes, shape{s, a, ""})
		}
	}
	for _, s := range []string{"", `""`, `"x_"`, `"x"`} {
		for _, t := range tVals {
			shapes = append(shapes, shape{s, "", t})
		}
	}
	// every multiset of <= 3 documents over the shapes would be ~5000 sets; pairs are what decides
	// whether two keys are kept apart, a third document checks that the survivors are not mixed up
	var sets [][]shape
	for i := range shapes {
		for j := i; j < len(shapes); j++ {
			sets = append(sets, []shape{shapes[i], shapes[j]}, []shape{shapes[j], shapes[i], shapes[0]})
		}
	}
	groupBys := [][]string{{"s"}, {"s", "a"}, {"a", "s"}, {"s", "t"}}
	keyOf := func(d shape, g []string) string {
		var ps []string
		for _, f := range g {
			v := map[string]string{"s": d.s, "a": d.a, "t": d.t}[f]
			if v == "" {
				v = "null"
			}
			ps = append(ps, f+"="+v)
		}
		return strings.Join(ps, ",")
	}
	for _, set := range sets {
		n.st.Restore(n.base)
		var ins []string
		for u, d := range set {
			in := fmt.Sprintf("u: %d", u)
			for f, v := range map[string]string{"s": d.s, "a": d.a, "t": d.t} {
				if v != "" {
					in += fmt.Sprintf(", %s: %s", f, v)
				}
			}
			ins = append(ins, "{"+in+"}")
		}
		if _, errs := world.Exec(ctx, n.db, fmt.Sprintf(`mutation { create_T(input: [%s]) { u } }`, strings.Join(ins, ", "))); len(errs) > 0 {
			rep.HarnessError("C08 group keys: %v", errs)
		}
		for _, g := range groupBys {
			req := fmt.Sprintf(`query { T(groupBy: [%s]) { %s _count(_group: {}) _group { u } } }`, strings.Join(g, ", "), strings.Join(g, " "))
			data, errs := world.Exec(ctx, n.db, req)
			evals++
			if len(errs) > 0 {
				r.Violation(rep.Violation{Fingerprint: "C08:groupby-keys:error", Summary: fmt.Sprintf("docs %v; %s: %v", ins, req, errs), Replay: map[string]any{"engine": "c08-group", "docs": ins, "request": req}})
				continue
			}
			want := map[string][]int{}
			for u, d := range set {
				want[keyOf(d, g)] = append(want[keyOf(d, g)], u)
			}
			var wantP, gotP []string
			for _, us := range want {
				sort.Ints(us)
				wantP = append(wantP, fmt.Sprint(us))
			}
			for _, row := range world.Rows(data, "T") {
				var us []int
				for _, m := range world.Rows(map[string]any{"x": row["_group"]}, "x") {
					us = append(us, int(toInt(m["u"])))
				}
				sort.Ints(us)
				if int(toInt(row["_count"])) != len(us) {
					gotP = append(gotP, fmt.Sprintf("%v(count %d)", us, toInt(row["_count"])))
				} else {
					gotP = append(gotP, fmt.Sprint(us))
				}
			}
			sort.Strings(wantP)
			sort.Strings(gotP)
			if strings.Join(wantP, " ") != strings.Join(gotP, " ") {
				r.Violation(rep.Violation{Fingerprint: "C08:groupby-keys:" + strings.Join(g, "+"), Summary: fmt.Sprintf("docs %v; %s: groups (by u) %v, equal keys give %v", ins, req, gotP, wantP),
					Replay: map[string]any{"engine": "c08-group", "docs": ins, "request": req}})
			}
		}
	}
	return evals
}
