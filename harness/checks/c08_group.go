package checks

// C08, grouping keys: groupBy over a String field (alone and combined with an Int field) must put two
// documents into one group exactly when their key values are equal - null, the empty string and
// strings that look like renderings of other values are all different keys.

import (
	"context"
	"fmt"
	"sort"
	"strings"

	"github.com/sourcenetwork/defradb/internal/verifh/rep"
	"github.com/sourcenetwork/defradb/internal/verifh/world"
)

func c08GroupKeys(r *rep.Run) (evals int) {
	ctx := context.Background()
	n, err := newQNode(`type T { u: Int  a: Int  s: String  t: String }`)
	if err != nil {
		rep.HarnessError("C08 group keys: %v", err)
	}
	defer n.db.Close()
	// key values per field: GraphQL literal ("" = field omitted, i.e. null)
	sVals := []string{"", `""`, `"x"`, `"<nil>"`, `"_"`, `"1"`}
	aVals := []string{"", "0", "1"}
	tVals := []string{"", `"y"`, `"_4_x"`}
	type shape struct{ s, a, t string }
	var shapes []shape
	for _, s := range sVals {
		for _, a := range aVals {
			shapes = append(shapes, shape{s, a, ""})
		}
	}
	for _, s := range []string{"", `""`, `"x_"`, `"x"`} {
		for _, t := range tVals {
			shapes = append(shapes, shape{s, "", t})
		}
	}
	// every multiset of <= 3 documents over the shapes would be ~5000 sets; pairs are what decides
	// whether two keys are kept apart, a third document checks that the survivors are not mixed up
	var sets [][]shape
	for i := range shapes {
		for j := i; j < len(shapes); j++ {
			sets = append(sets, []shape{shapes[i], shapes[j]}, []shape{shapes[j], shapes[i], shapes[0]})
		}
	}
	groupBys := [][]string{{"s"}, {"s", "a"}, {"a", "s"}, {"s", "t"}}
	keyOf := func(d shape, g []string) string {
		var ps []string
		for _, f := range g {
			v := map[string]string{"s": d.s, "a": d.a, "t": d.t}[f]
			if v == "" {
				v = "null"
			}
			ps = append(ps, f+"="+v)
		}
		return strings.Join(ps, ",")
	}
	for _, set := range sets {
		n.st.Restore(n.base)
		var ins []string
		for u, d := range set {
			in := fmt.Sprintf("u: %d", u)
			for f, v := range map[string]string{"s": d.s, "a": d.a, "t": d.t} {
				if v != "" {
					in += fmt.Sprintf(", %s: %s", f, v)
				}
			}
			ins = append(ins, "{"+in+"}")
		}
		if _, errs := world.Exec(ctx, n.db, fmt.Sprintf(`mutation { create_T(input: [%s]) { u } }`, strings.Join(ins, ", "))); len(errs) > 0 {
			rep.HarnessError("C08 group keys: %v", errs)
		}
		for _, g := range groupBys {
			req := fmt.Sprintf(`query { T(groupBy: [%s]) { %s _count(_group: {}) _group { u } } }`, strings.Join(g, ", "), strings.Join(g, " "))
			data, errs := world.Exec(ctx, n.db, req)
			evals++
			if len(errs) > 0 {
				r.Violation(rep.Violation{Fingerprint: "C08:groupby-keys:error", Summary: fmt.Sprintf("docs %v; %s: %v", ins, req, errs), Replay: map[string]any{"engine": "c08-group", "docs": ins, "request": req}})
				continue
			}
			want := map[string][]int{}
			for u, d := range set {
				want[keyOf(d, g)] = append(want[keyOf(d, g)], u)
			}
			var wantP, gotP []string
			for _, us := range want {
				sort.Ints(us)
				wantP = append(wantP, fmt.Sprint(us))
			}
			for _, row := range world.Rows(data, "T") {
				var us []int
				for _, m := range world.Rows(map[string]any{"x": row["_group"]}, "x") {
					us = append(us, int(toInt(m["u"])))
				}
				sort.Ints(us)
				if int(toInt(row["_count"])) != len(us) {
					gotP = append(gotP, fmt.Sprintf("%v(count %d)", us, toInt(row["_count"])))
				} else {
					gotP = append(gotP, fmt.Sprint(us))
				}
			}
			sort.Strings(wantP)
			sort.Strings(gotP)
			if strings.Join(wantP, " ") != strings.Join(gotP, " ") {
				r.Violation(rep.Violation{Fingerprint: "C08:groupby-keys:" + strings.Join(g, "+"), Summary: fmt.Sprintf("docs %v; %s: groups (by u) %v, equal keys give %v", ins, req, gotP, wantP),
					Replay: map[string]any{"engine": "c08-group", "docs": ins, "request": req}})
			}
		}
	}
	evals += c08GroupSlices(r)
	return evals
}

// c08GroupSlices: limit / offset / order given on _group, on an aggregate over _group and on an aggregate
// over an inline array cut a slice of the ordered member sequence - with or without a limit next to the
// offset, and whatever the enclosing request orders by.
func c08GroupSlices(r *rep.Run) (evals int) {
	ctx := context.Background()
	n, err := newQNode(`type T { u: Int  a: Int  xs: [Int!] }`)
	if err != nil {
		rep.HarnessError("C08 group slices: %v", err)
	}
	defer n.db.Close()
	// members per group (by u): a=1 -> 0,1,3,4   a=2 -> 2   ; xs only on u=0
	if _, errs := world.Exec(ctx, n.db, `mutation { create_T(input: [{u: 0, a: 1, xs: [5, 3, 4, 1]}, {u: 1, a: 1, xs: []}, {u: 2, a: 2, xs: [7]}, {u: 3, a: 1, xs: [2, 2]}, {u: 4, a: 1, xs: [9, 8, 7]}]) { u } }`); len(errs) > 0 {
		rep.HarnessError("C08 group slices: %v", errs)
	}
	members := map[int64][]int64{1: {0, 1, 3, 4}, 2: {2}}
	arrays := map[int64][]int64{0: {5, 3, 4, 1}, 1: {}, 2: {7}, 3: {2, 2}, 4: {9, 8, 7}}
	cut := func(seq []int64, desc bool, lim, off int) []int64 {
		s := append([]int64{}, seq...)
		sort.Slice(s, func(i, j int) bool {
			if desc {
				return s[i] > s[j]
			}
			return s[i] < s[j]
		})
		if off > len(s) {
			off = len(s)
		}
		s = s[off:]
		if lim > 0 && lim < len(s) {
			s = s[:lim]
		}
		return s
	}
	viol := func(class, req, detail string) {
		r.Violation(rep.Violation{Fingerprint: "C08:slice:" + class, Summary: req + ": " + detail, Replay: map[string]any{"engine": "c08-group-slices", "request": req}})
	}
	for _, outer := range []string{"", ", order: {a: ASC}", ", order: {a: DESC}"} {
		for _, desc := range []bool{false, true} {
			for _, lim := range []int{0, 1, 2, 5} {
				for _, off := range []int{0, 1, 3, 6} {
					if lim == 0 && off == 0 {
						continue
					}
					dir := "ASC"
					if desc {
						dir = "DESC"
					}
					args := fmt.Sprintf("order: {u: %s}", dir)
					if lim > 0 {
						args += fmt.Sprintf(", limit: %d", lim)
					}
					if off > 0 {
						args += fmt.Sprintf(", offset: %d", off)
					}
					class := fmt.Sprintf("limit=%v offset=%v outer-order=%v", lim > 0, off > 0, outer != "")
					// 1. the members themselves
					req := fmt.Sprintf(`query { T(groupBy: [a]%s) { a _group(%s) { u } } }`, outer, args)
					data, errs := world.Exec(ctx, n.db, req)
					evals++
					if len(errs) > 0 {
						viol("group-members:error", req, fmt.Sprint(errs))
					}
					for _, row := range world.Rows(data, "T") {
						var got []int64
						for _, m := range world.Rows(map[string]any{"x": row["_group"]}, "x") {
							got = append(got, toInt(m["u"]))
						}
						want := cut(members[toInt(row["a"])], desc, lim, off)
						if fmt.Sprint(got) != fmt.Sprint(want) {
							viol("group-members:"+class, req, fmt.Sprintf("group a=%d: members %v, the slice of the ordered members is %v", toInt(row["a"]), got, want))
						}
					}
					// 2. aggregates over the same slice
					cargs := strings.TrimPrefix(strings.TrimPrefix(args, "order: {u: "+dir+"}"), ", ") // _count takes no order
					req = fmt.Sprintf(`query { T(groupBy: [a]%s) { a _count(_group: {%s}) _sum(_group: {field: u, %s}) } }`, outer, cargs, args)
					data, errs = world.Exec(ctx, n.db, req)
					evals++
					if len(errs) > 0 {
						viol("group-aggregate:error", req, fmt.Sprint(errs))
					}
					for _, row := range world.Rows(data, "T") {
						want := cut(members[toInt(row["a"])], desc, lim, off)
						var sum int64
						for _, x := range want {
							sum += x
						}
						if toInt(row["_count"]) != int64(len(want)) || toInt(row["_sum"]) != sum {
							viol("group-aggregate:"+class, req, fmt.Sprintf("group a=%d: _count=%d _sum=%d, the slice %v has count %d sum %d", toInt(row["a"]), toInt(row["_count"]), toInt(row["_sum"]), want, len(want), sum))
						}
					}
					// 3. aggregates over an inline array (no order on scalars: ordering is by value)
					aargs := strings.Replace(args, "order: {u: "+dir+"}", "order: "+dir, 1)
					req = fmt.Sprintf(`query { T(order: {u: ASC}) { u _count(xs: {%s}) _sum(xs: {%s}) } }`, strings.TrimPrefix(strings.TrimPrefix(aargs, "order: "+dir), ", "), aargs)
					data, errs = world.Exec(ctx, n.db, req)
					evals++
					if len(errs) > 0 {
						viol("array-aggregate:error", req, fmt.Sprint(errs))
						continue
					}
					for _, row := range world.Rows(data, "T") {
						arr := arrays[toInt(row["u"])]
						wantSum := cut(arr, desc, lim, off)
						var sum int64
						for _, x := range wantSum {
							sum += x
						}
						// _count without order: a slice of the stored sequence has the same length as a slice of the sorted one
						if toInt(row["_count"]) != int64(len(wantSum)) || toInt(row["_sum"]) != sum {
							viol("array-aggregate:"+class, req, fmt.Sprintf("u=%d xs=%v: _count=%d _sum=%d, the slice %v has count %d sum %d", toInt(row["u"]), arr, toInt(row["_count"]), toInt(row["_sum"]), wantSum, len(wantSum), sum))
						}
					}
				}
			}
		}
	}
	return evals
}
