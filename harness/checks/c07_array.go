package checks

// C07, array and JSON indexes: twins with identical history, one with `@index` on an [Int] field, a
// [String] field and a JSON field, one without. Every multiset of <= k documents over small value
// alphabets x a mutation history of <= 1 step x every request of the array / JSON filter grammar is
// answered by both; the answers must be the same set of documents.

import (
	"context"
	"encoding/json"
	"fmt"
	"runtime"
	"sort"
	"strings"
	"sync"

	"github.com/sourcenetwork/defradb/client"
	"github.com/sourcenetwork/defradb/internal/verifh/rep"
	"github.com/sourcenetwork/defradb/internal/verifh/world"
)

const c07ArrPlain = `type A { u: Int  ai: [Int]  as: [String]  j: JSON }`
const c07ArrIx = `type A { u: Int  ai: [Int] @index  as: [String] @index  j: JSON @index }`

type arrDoc struct{ ai, as, j string } // JSON texts ("" = field absent)

func c07ArrAlphabet() []arrDoc {
	ais := []string{"", "null", "[]", "[1]", "[1, 2]", "[2, 2]", "[null, 1]", "[3]"}
	ass := []string{"", `["x"]`, `["x", "y"]`, `[]`}
	js := []string{"", `{"h": 1}`, `{"h": 2, "t": "x"}`, `{"h": null}`, `{"n": {"h": 1}}`, `[1, 2]`, `1`, `"x"`, `null`}
	var out []arrDoc
	// pairwise rather than the full product: each value of each field occurs with several of the others
	for i, a := range ais {
		out = append(out, arrDoc{a, ass[i%len(ass)], js[i%len(js)]})
	}
	for i, j := range js {
		out = append(out, arrDoc{ais[(i+3)%len(ais)], ass[(i+1)%len(ass)], j})
	}
	return out
}

func (d arrDoc) json(u int) string {
	parts := []string{fmt.Sprintf(`"u": %d`, u)}
	if d.ai != "" {
		parts = append(parts, `"ai": `+d.ai)
	}
	if d.as != "" {
		parts = append(parts, `"as": `+d.as)
	}
	if d.j != "" {
		parts = append(parts, `"j": `+d.j)
	}
	return "{" + strings.Join(parts, ", ") + "}"
}

func c07ArrRequests() []string {
	var out []string
	for _, q := range []string{"_any", "_all", "_none"} {
		for _, c := range []string{`{_eq: 1}`, `{_eq: 2}`, `{_ne: 1}`, `{_gt: 1}`, `{_ge: 2}`, `{_lt: 2}`, `{_le: 1}`, `{_in: [1, 3]}`, `{_nin: [1]}`, `{_eq: null}`, `{_ne: null}`} {
			out = append(out, fmt.Sprintf(`query { A(filter: {ai: {%s: %s}}) { u } }`, q, c))
		}
		for _, c := range []string{`{_eq: "x"}`, `{_ne: "x"}`, `{_in: ["y"]}`, `{_like: "x%"}`} {
			out = append(out, fmt.Sprintf(`query { A(filter: {as: {%s: %s}}) { u } }`, q, c))
		}
	}
	out = append(out, `query { A(filter: {ai: {_eq: null}}) { u } }`, `query { A(filter: {ai: {_ne: null}}) { u } }`,
		`query { A(filter: {ai: {_any: {_eq: 1}}, as: {_any: {_eq: "x"}}}) { u } }`,
		`query { A(filter: {_or: [{ai: {_any: {_eq: 2}}}, {as: {_any: {_eq: "y"}}}]}) { u } }`)
	for _, c := range []string{`{h: {_eq: 1}}`, `{h: {_ne: 1}}`, `{h: {_gt: 1}}`, `{h: {_ge: 1}}`, `{h: {_lt: 2}}`, `{h: {_eq: null}}`, `{h: {_ne: null}}`, `{h: {_in: [1, 2]}}`,
		`{t: {_eq: "x"}}`, `{n: {h: {_eq: 1}}}`, `{_eq: 1}`, `{_eq: "x"}`, `{_eq: null}`, `{_ne: null}`, `{_any: {_eq: 1}}`, `{_all: {_ge: 1}}`, `{_none: {_eq: 2}}`} {
		out = append(out, fmt.Sprintf(`query { A(filter: {j: %s}) { u } }`, c))
	}
	return out
}

func c07Arrays(r *rep.Run) (evals, distinct int) {
	ctx := context.Background()
	alpha := c07ArrAlphabet()
	k := 2
	if rep.Tier() == "thorough" {
		k = 3
	}
	var sets [][]int
	var rec func(start int, cur []int)
	rec = func(start int, cur []int) {
		if len(cur) > 0 {
			sets = append(sets, append([]int{}, cur...))
		}
		if len(cur) == k {
			return
		}
		for i := start; i < len(alpha); i++ {
			rec(i, append(cur, i))
		}
	}
	rec(0, nil)
	reqs := c07ArrRequests()
	var mu sync.Mutex
	outcomes := map[string]bool{}
	ch := make(chan []int)
	var wg sync.WaitGroup
	for w := 0; w < runtime.NumCPU(); w++ {
		wg.Add(1)
		go func() {
			defer wg.Done()
			plain, err1 := newQNode(c07ArrPlain)
			ix, err2 := newQNode(c07ArrIx)
			if err1 != nil || err2 != nil {
				rep.HarnessError("C07 arrays: %v %v", err1, err2)
			}
			defer plain.db.Close()
			defer ix.db.Close()
			for set := range ch {
				// histories: none; update the first document to the next alphabet entry; delete it
				for hist := 0; hist < 3; hist++ {
					var ids [2][]string
					ok := true
					for ni, n := range []*qnode{plain, ix} {
						n.st.Restore(n.base)
						col, err := n.db.GetCollectionByName(ctx, "A")
						if err != nil {
							rep.HarnessError("C07 arrays: %v", err)
						}
						for u, ai := range set {
							doc, err := client.NewDocFromJSON([]byte(alpha[ai].json(u)), col.Definition())
							if err != nil {
								rep.HarnessError("C07 arrays: doc %s: %v", alpha[ai].json(u), err)
							}
							if err := col.Create(ctx, doc); err != nil {
								ok = false // e.g. identical documents in a multiset: same docID
								break
							}
							ids[ni] = append(ids[ni], doc.ID().String())
						}
						if !ok {
							break
						}
						switch hist {
						case 1:
							nx := alpha[(set[0]+1)%len(alpha)]
							upd := map[string]string{"ai": nx.ai, "as": nx.as, "j": nx.j}
							var parts []string
							for f, v := range upd {
								if v != "" {
									parts = append(parts, fmt.Sprintf("%q: %s", f, v))
								}
							}
							sort.Strings(parts)
							doc, err := col.Get(ctx, mustDocID(ids[ni][0]), false)
							if err != nil {
								rep.HarnessError("C07 arrays: get: %v", err)
							}
							if err := doc.SetWithJSON([]byte("{" + strings.Join(parts, ", ") + "}")); err != nil {
								rep.HarnessError("C07 arrays: set: %v", err)
							}
							if err := col.Update(ctx, doc); err != nil {
								rep.HarnessError("C07 arrays: update: %v", err)
							}
						case 2:
							if _, err := col.Delete(ctx, mustDocID(ids[ni][0])); err != nil {
								rep.HarnessError("C07 arrays: delete: %v", err)
							}
						}
					}
					if !ok {
						continue
					}
					for _, q := range reqs {
						pd, perrs := world.Exec(ctx, plain.db, q)
						xd, xerrs := world.Exec(ctx, ix.db, q)
						pc, xc := world.CanonRowsUnordered(world.Rows(pd, "A")), world.CanonRowsUnordered(world.Rows(xd, "A"))
						mu.Lock()
						evals++
						if pc != "[]" {
							outcomes[q+"#"+pc] = true
						}
						mu.Unlock()
						if pc != xc || (len(perrs) > 0) != (len(xerrs) > 0) {
							var docs []string
							for u, ai := range set {
								docs = append(docs, alpha[ai].json(u))
							}
							field := "ai"
							if strings.Contains(q, "as:") {
								field = "as"
							} else if strings.Contains(q, "j:") {
								field = "j"
							}
							fp := "C07:array-or-json-index-changes-answer:" + field + ":" + c07ArrOp(q)
							// the documents as they are after the history
							eff := make([]arrDoc, len(set))
							for u, ai := range set {
								eff[u] = alpha[ai]
							}
							if hist == 1 {
								nx := alpha[(set[0]+1)%len(alpha)]
								if nx.ai != "" {
									eff[0].ai = nx.ai
								}
								if nx.as != "" {
									eff[0].as = nx.as
								}
								if nx.j != "" {
									eff[0].j = nx.j
								}
							}
							if field == "j" && strings.Contains(q, "j: {_") && !strings.Contains(q, "_eq: null") && !strings.Contains(q, "_ne: null") {
								// a condition placed directly on the JSON field (not on a key of it)
								fp = "C07:json-index:condition-directly-on-the-json-field"
							} else if len(perrs) > 0 && len(xerrs) == 0 && strings.Contains(strings.Join(perrs, " "), "field or alias not found") {
								fp = "C07:json-index:scan-fails-on-a-key-filter-over-non-object-json-where-the-index-answers"
							} else if k := c07ArrKnownClass(q, field, pc, xc, eff, hist); k != "" {
								fp = k
							}
							r.Violation(rep.Violation{Fingerprint: fp,
								Summary: fmt.Sprintf("documents %v history %d: %s\n  plain   %s %v\n  indexed %s %v", docs, hist, q, pc, perrs, xc, xerrs),
								Replay:  map[string]any{"part": "arrays", "documents": docs, "history": hist, "request": q}})
						}
					}
				}
			}
		}()
	}
	for _, s := range sets {
		ch <- s
	}
	close(ch)
	wg.Wait()
	r.Coverage["array_json_index_document_sets"] = len(sets)
	r.Coverage["array_json_index_requests"] = len(reqs)
	return evals, len(outcomes)
}

func c07ArrOp(q string) string {
	for _, op := range []string{"_any", "_all", "_none"} {
		if strings.Contains(q, op) {
			return op
		}
	}
	return "plain"
}

func mustDocID(s string) client.DocID {
	id, err := client.NewDocIDFromString(s)
	if err != nil {
		rep.HarnessError("docID %s: %v", s, err)
	}
	return id
}


// c07ArrKnownClass recognises two precise classes of disagreement (anything else keeps its own
// fingerprint): `_all` is vacuously true for an empty array on the scan path and has no index entry
// to find; a condition that is true for a missing value (_ne, _nin, _eq: null, _none) matches a
// document without the JSON path on the scan path and has no index entry to find.
func c07ArrKnownClass(q, field, plain, indexed string, eff []arrDoc, hist int) string {
	us := func(c string) map[string]bool {
		m := map[string]bool{}
		for _, part := range strings.Split(strings.Trim(c, "[]"), "},{") {
			part = strings.Trim(part, "{}")
			if strings.HasPrefix(part, "u:") {
				m[part[2:]] = true
			}
		}
		return m
	}
	p, x := us(plain), us(indexed)
	for u := range x {
		if !p[u] {
			return "" // the index returned something the scan did not
		}
	}
	var lost []int
	for u := range p {
		if !x[u] {
			var n int
			fmt.Sscan(u, &n)
			lost = append(lost, n)
		}
	}
	if len(lost) == 0 {
		return ""
	}
	switch {
	case (field == "ai" || field == "as") && strings.Contains(q, "_all"):
		for _, u := range lost {
			v := eff[u].ai
			if field == "as" {
				v = eff[u].as
			}
			if v != "[]" {
				return ""
			}
		}
		return "C07:array-index:_all-misses-documents-with-an-empty-array"
	case field == "j" && (strings.Contains(q, "_ne") || strings.Contains(q, "_nin") || strings.Contains(q, "_eq: null") || strings.Contains(q, "_none")):
		for _, u := range lost {
			v := eff[u].j
			// the filtered path is absent: no value at all, JSON null, a scalar / array, or an object without the key
			path := "h"
			if strings.Contains(q, "{t:") {
				path = "t"
			} else if strings.Contains(q, "{n:") {
				path = "n"
			}
			// does the document hold a non-null value at the top-level key?
			var obj map[string]any
			if strings.HasPrefix(v, "{") && json.Unmarshal([]byte(v), &obj) == nil && obj[path] != nil && !strings.Contains(q, "j: {_") {
				return ""
			}
		}
		return "C07:json-index:condition-true-for-a-missing-value-misses-documents-without-the-path"
	}
	return ""
}
